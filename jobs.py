"""Job tables: which unit wrapper x harness x configuration decides which property, at which tier."""

KT = {
    'uint8_t': dict(KEY='uint8_t', KEY_U='unsigned char', KEY_BITS=8, KEY_SIGNED=0),
    'int8_t': dict(KEY='int8_t', KEY_U='unsigned char', KEY_BITS=8, KEY_SIGNED=1),
    'uint16_t': dict(KEY='uint16_t', KEY_U='unsigned short', KEY_BITS=16, KEY_SIGNED=0),
    'int16_t': dict(KEY='int16_t', KEY_U='unsigned short', KEY_BITS=16, KEY_SIGNED=1),
    'uint32_t': dict(KEY='uint32_t', KEY_U='unsigned int', KEY_BITS=32, KEY_SIGNED=0),
    'int32_t': dict(KEY='int32_t', KEY_U='unsigned int', KEY_BITS=32, KEY_SIGNED=1),
    'uint64_t': dict(KEY='uint64_t', KEY_U='unsigned long', KEY_BITS=64, KEY_SIGNED=0),
    'int64_t': dict(KEY='int64_t', KEY_U='unsigned long', KEY_BITS=64, KEY_SIGNED=1),
}
Q = ('quick', 'thorough')
T = ('thorough',)


def e2e(name, kt, n, eps, epsrec, flt='float', tiers=Q, timeout=900, extra=None, narrow=None, mem_gb=14):
    d = dict(KT[kt]); d.update(N=n, NMIN=n, EPS=eps, EPSREC=epsrec, FLT=flt, VERIF_VEC_CAP=n + 4)
    if extra: d.update(extra)
    return dict(frame_stores=bool(extra and 'WITH_FRAME' in extra), name=name, unit='pgm_e2e.cpp', harness='h_pgm_e2e.c', defs=d, cbmc_extra=['--no-array-field-sensitivity'],
                narrow=narrow if narrow is not None else (16 if KT[kt]['KEY_BITS'] == 8 else 0), timeout=timeout, tiers=tiers, mem_gb=mem_gb,
                bounds='exactly n = %d keys of %s (all values except the reserved maximum%s), every query value except the reserved one, Epsilon=%d, '
                       'EpsilonRecursive=%d, %s slopes; sequential construction; every loop bound checked by an unwinding assertion'
                       % (n, kt, '; the reserved value allowed as last key -> rejection path' if extra and 'ALLOW_SENTINEL' in extra else '', eps, epsrec, flt))


def fixed_data(kt, n, seed, shape):
    """deterministic sorted data set (ordinals in the key type's order) for the fixed-data jobs"""
    import random
    r = random.Random(seed); bits = KT[kt]['KEY_BITS']; top = (1 << bits) - 2
    if shape == 'uniform': v = [r.randint(0, top) for _ in range(n)]
    elif shape == 'clustered':     # runs of nearby keys separated by large gaps, some duplicates
        v = []; x = r.randint(0, top // 4)
        while len(v) < n:
            for _ in range(r.randint(1, 6)):
                v.append(min(x, top)); x += r.choice([0, 1, 1, 2, 3, 7])
            x += r.randint(1, max(2, top // (n // 2 + 1)))
        v = v[:n]
    elif shape == 'dense_high':    # runs of consecutive keys far above 2^53 (where double no longer represents every integer), a few gaps
        v = []; x = (1 << (bits - 3)) + r.randint(0, 1 << 20)
        while len(v) < n:
            for _ in range(r.randint(4, 12)):
                v.append(min(x, top)); x += 1
            x += r.choice([1, 3, 1000, 1 << 40])
        v = v[:n]
    elif shape == 'groups':        # groups of 4 consecutive keys 100 apart, then one far key: the upper level under-estimates the last groups
        g = (n - 1) // 4
        v = [100 * i + t for i in range(g) for t in range(4)]
        while len(v) < n - 1: v.append(v[-1] + 1)
        v.append(min(top, v[-1] + r.randint(1000, 1 << (bits - 2))))
    elif shape == 'dense_gap':     # dense runs (consecutive keys) separated by wide gaps: queries inside a gap exercise the clamp of the range at the next segment
        v = []; x = r.randint(0, 100)
        while len(v) < n:
            for _ in range(r.randint(3, 7)):
                v.append(min(x, top)); x += 1
            x += r.choice([997, 100000, 1 << (bits - 4)])
        v = v[:n]
    else:                          # 'steps': slopes that change abruptly
        v = []; x = r.randint(0, 1000); step = 1
        for i in range(n):
            if i % r.randint(3, 7) == 0: step = r.choice([1, 2, 5, 50, 1000, 1 << (bits // 2)])
            v.append(min(x, top)); x += step
    return sorted(v)


def e2e_fixed(name, kt, n, eps, epsrec, seed, shape, flt='float', tiers=Q, timeout=900, mem_gb=14, extra=None):
    data = fixed_data(kt, n, seed, shape)
    j = e2e(name, kt, n, eps, epsrec, flt=flt, tiers=tiers, timeout=timeout, mem_gb=mem_gb, narrow=0,
            extra=dict(FIXED_DATA=','.join('%dULL' % x for x in data), VERIF_VEC_CAP=n + 8, **(extra or {})))
    j['bounds'] = ('ONE concrete sorted data set of %d %s keys (shape %r, python random.Random(%d), listed in the job definition) and EVERY non-reserved query key of the type (symbolic); '
                   'Epsilon=%d, EpsilonRecursive=%d, %s slopes; decides the property for this data set only' % (n, kt, shape, seed, eps, epsrec, flt))
    j['profile_unwind'] = 700 if extra and 'WITH_FRAME' in extra else 2 * n + 40; j['refine_rounds'] = 12
    j['cbmc_extra'] = ['--max-field-sensitivity-array-size', str(n + 16)]     # keep the concrete construction constant-propagated element by element
    if extra and 'SYM_LAST' in extra: j['bounds'] = j['bounds'].replace('ONE concrete sorted data set', 'a sorted data set whose LAST key is symbolic (any value >= its predecessor) and whose other keys are concrete:')
    return j


def pla(name, k, epsfix=None, epsmax=2, ymax=12, xmax=255, maximality=True, tiers=Q, timeout=900, reject=False):
    d = dict(KT['uint8_t']); d.update(NPTS=k, EPSMAX=epsmax, YMAX=ymax, XMAX=xmax, VERIF_VEC_CAP=k + 2)
    if epsfix is not None: d.update(EPSFIX=epsfix, EPSMAX=epsfix)
    if not maximality: d.update(NO_MAXIMALITY=1)
    if reject: d.update(REJECT_MODE=1)
    return dict(name=name, unit='pla.cpp', harness='h_pla.c', defs=d, narrow=16, timeout=timeout, tiers=tiers,
                bounds='%d points with strictly increasing uint8_t keys in 0..%d and non-decreasing ranks <= %d, epsilon %s; %s'
                       % (k, xmax, ymax, ('= %d' % epsfix) if epsfix is not None else 'symbolic in 0..%d' % epsmax,
                          'fit of every accepted point + maximality (exact feasibility oracle)' if maximality else 'fit of every accepted point (no maximality oracle)'))


def mkseg(name, nk, eps, chunks=1, xmax=254, tiers=Q, timeout=900, mem_gb=14, range_end=None):
    d = dict(KT['uint8_t']); d.update(NK=nk, EPSFIX=eps, CHUNKS=chunks, XMAX=xmax, YMAXCHK=nk, MAXSEG=nk + 2, VERIF_VEC_CAP=nk + 4, VERIF_VECVEC_CAP=max(chunks, 2))
    if range_end is not None: d.update(RANGE_END=range_end)
    return dict(name=name, unit='pla.cpp', harness='h_mkseg.c', defs=d, narrow=16, timeout=timeout, tiers=tiers, mem_gb=mem_gb,
                bounds='sorted arrays of exactly %d uint8_t keys in 0..%d (duplicates allowed), epsilon=%d, %s'
                       % (nk, xmax, eps, ('the non-final chunk [0,%d) through make_segmentation(n, start, end, ...)' % range_end) if range_end is not None else 'sequential driver' if chunks <= 1 else 'chunked driver with %d chunks (hook H1: real chunk loop run sequentially)' % chunks))


def mapped(name, kt, n, eps=1, epsrec=1, ord_hi=None, tiers=Q, timeout=900, frame=False):
    d = dict(KT[kt]); d.update(N=n, EPS=eps, EPSREC=epsrec, FLT='float', VERIF_VEC_CAP=n + 4)
    if frame: d.update(WITH_FRAME=1)
    if ord_hi is not None: d.update(ORD_HI=ord_hi)
    return dict(name=name, unit='mapped.cpp', harness='h_mapped.c', defs=d, narrow=16 if KT[kt]['KEY_BITS'] == 8 else 0, timeout=timeout, tiers=tiers, frame_stores=frame,
                cbmc_extra=['--no-array-field-sensitivity'], unwind_rules=[(r'^F_u_mapped\.', 100)] if frame else [],
                bounds='exactly %d sorted %s keys%s, every duplicate structure, every query except the reserved value, Epsilon=%d, EpsilonRecursive=%d; '
                       'file/mmap layer replaced by a pointer to the array (accessor hook)' % (n, kt, '' if ord_hi is None else ' with ordinals 0..%d' % ord_hi, eps, epsrec))


def mapped_fixed(name, kt, data, eps=1, epsrec=1, tiers=Q, timeout=1200):
    n = len(data)
    j = mapped(name, kt, n, eps=eps, epsrec=epsrec, tiers=tiers, timeout=timeout)
    j['defs'].update(FIXED_DATA=','.join('%dULL' % x for x in data), VERIF_VEC_CAP=n + 8)
    j['narrow'] = 0; j['profile_unwind'] = 2 * n + 60; j['profile_samples'] = 8; j['refine_rounds'] = 14
    j['cbmc_extra'] = ['--max-field-sensitivity-array-size', str(n + 16)]
    j['bounds'] = ('ONE concrete sorted data set of %d %s keys with long runs of duplicates (listed in the job definition) and EVERY non-reserved query key (symbolic); Epsilon=%d, EpsilonRecursive=%d; '
                   'file/mmap layer replaced by a pointer to the array (accessor hook); decides the property for this data set only' % (n, kt, eps, epsrec))
    return j


def dup_data(kt, n, seed):
    """sorted data with runs of duplicates of many lengths (1..9), for count()/upper_bound"""
    import random
    r = random.Random(seed); top = (1 << KT[kt]['KEY_BITS']) - 2; v = []; x = r.randint(0, top // 2)
    while len(v) < n:
        v += [min(x, top)] * r.randint(1, 9); x += r.choice([1, 1, 2, 40, 100000])
    return sorted(v[:n])


def md(name, mode, npts, cmax, eps=1, epsrec=1, exact=True, tiers=Q, timeout=900, miss=1, mem_gb=14):
    d = dict(CT='uint32_t', CT_U='unsigned int', MAXPTS=npts, NPTS_MIN=npts if exact else 1, CMAX=cmax, MODE=mode, EPS=eps, EPSREC=epsrec,
             VERIF_VEC_CAP=npts + 4, PGM_INDEX_VERIF_MISS_THRESHOLD=miss)
    return dict(name=name, unit='multidim.cpp', harness='h_md.c', defs=d, narrow=16, timeout=timeout, tiers=tiers, mem_gb=mem_gb,
                bounds='%s %d points in 2 dimensions, coordinates 0..%d (uint32 Morton codes), duplicates allowed, Epsilon=%d, EpsilonRecursive=%d, '
                       'miss_threshold=%d (hook) so that the bigmin skip path runs at this size; %s'
                       % ('exactly' if exact else 'up to', npts, cmax, eps, epsrec, miss, 'every query point' if mode == 0 else 'every box with min <= max'))


def dyn(name, mode, nbulk, nops, kmax=5, vmax=3, base=2, bufl=1, idxl=2, eps=1, epsrec=1, tiers=Q, timeout=900, mem_gb=14):
    d = dict(DMODE=mode, NBULK=nbulk, MAXBULK=max(nbulk, 1), NOPS=nops, KMAX=kmax, VMAX=vmax, BASE=base, BUFL=bufl, IDXL=idxl, EPS=eps, EPSREC=epsrec,
             MAXOUT=kmax + 1, VERIF_VEC_CAP=max(nbulk + nops + 4, 10), VERIF_VECVEC_CAP=36, VERIF_SET_CAP=kmax + 2)
    return dict(name=name, unit='dyn.cpp', harness='h_dyn.c', defs=d, narrow=16, timeout=timeout, tiers=tiers, mem_gb=mem_gb,
                bounds=['find/count/lower_bound', 'begin()..end() traversal', 'LSM invariants', 'size/empty/range', 'traversal from lower_bound'][mode] + ' after a bulk-load of %d sorted pairs then every history of %d insert_or_assign/erase operations over keys 0..%d and values 0..%d; '
                       'base=%d, buffer_level=%d (buffer of %d), index_level=%d (levels >= %d carry a PGM-index with Epsilon=%d); all queries afterwards'
                       % (nbulk, nops, kmax, vmax, base, bufl, sum(base ** i for i in range(bufl + 1)), idxl, max(idxl, bufl + 1), eps))


def dyn_fixed(name, mode, nops, seed, kmax=23, vmax=3, idxl=3, erase_p=0.3, tiers=Q, timeout=1200, mem_gb=14):
    """one concrete history of nops updates (python random.Random(seed)), every query symbolic"""
    import random
    r = random.Random(seed); ops = []
    for _ in range(nops):
        if r.random() < erase_p: ops += [1, r.randint(0, kmax), 0]
        else: ops += [0, r.randint(0, kmax), r.randint(0, vmax)]
    j = dyn(name, mode, 0, nops, kmax=kmax, vmax=vmax, idxl=idxl, tiers=tiers, timeout=timeout, mem_gb=mem_gb)
    j['defs'].update(FIXED_OPS=','.join(str(x) for x in ops), VERIF_VEC_CAP=40, VERIF_VECVEC_CAP=36, VERIF_SET_CAP=kmax + 2, INV_EACH_STEP=1)     # C15: invariants after every operation
    j['profile_unwind'] = 200; j['profile_samples'] = 4; j['refine_rounds'] = 14; j['cbmc_extra'] = ['--max-field-sensitivity-array-size', '128']     # the history is concrete: few profile samples suffice
    j['bounds'] = (['find/count/lower_bound', 'begin()..end() traversal', 'LSM invariants', 'size/empty/range', 'traversal from lower_bound'][mode] +
                   ' after ONE concrete history of %d insert_or_assign/erase operations over keys 0..%d (python random.Random(%d), erase probability %.1f; listed in the job definition), '
                   'EVERY query key / range symbolic; base 2, buffer_level 1 (levels of 3, 4, 8, 16, ... items), levels >= %d carry a PGM-index; decides the property for this history only'
                   % (nops, kmax, seed, erase_p, idxl))
    return j


def md_fixed(name, mode, npts, seed, cmax=15, miss=1, tiers=Q, timeout=1200, mem_gb=14):
    """one concrete set of npts 2-d points (python random.Random(seed), duplicates possible), every query point / box symbolic"""
    import random
    r = random.Random(seed); pts = [r.randint(0, cmax) for _ in range(2 * npts)]
    j = md(name, mode, npts, cmax, tiers=tiers, timeout=timeout, miss=miss, mem_gb=mem_gb)
    j['defs'].update(FIXED_PTS=','.join(str(x) for x in pts), MAXOUT=npts, VERIF_VEC_CAP=npts + 8)
    # the concrete profiling runs (std::sort on tuples) are slower than a symbolic round (4 s): start low and let the unwinding assertions raise the bounds
    j['profile_samples'] = 1; j['profile_unwind'] = 40; j['profile_timeout'] = 120; j['refine_rounds'] = 60; j['cbmc_extra'] = ['--max-field-sensitivity-array-size', str(npts + 16)]
    j['bounds'] = ('ONE concrete set of %d points %s (python random.Random(%d), coordinates 0..%d), %s symbolic over 0..%d; miss_threshold=%d (hook); decides the property for this point set only'
                   % (npts, [(pts[2 * i], pts[2 * i + 1]) for i in range(npts)], seed, cmax, 'EVERY query point' if mode == 0 else 'EVERY box with min <= max', cmax, miss))
    return j


def cpgm(name, kt, ctype, n, epslo=1, ephi=3, spread=200, sentinel=False, tiers=Q, timeout=900):
    d = dict(KT[kt]); d.update(CTYPE=ctype, N=n, EPSLO=epslo, EPSHI=ephi, SPREAD=spread, VERIF_VEC_CAP=n + 4, VERIF_SET_CAP=4)
    if sentinel: d.update(ALLOW_SENTINEL=1)
    return dict(name=name, unit='c_iface.cpp', harness='h_cpgm.c', defs=d, narrow=16, roots=['@u_cpgm'], timeout=timeout, tiers=tiers, profile_samples=8,
                cbmc_extra=['--no-array-field-sensitivity'],
                bounds='pgm_index_%s_{create,search,destroy}: exactly %d sorted keys = symbolic base (anywhere in the %s range) + offsets 0..%d, run-time epsilon '
                       'symbolic in %d..%d, queries base+0..%d%s' % (ctype, n, kt, spread, epslo, ephi, spread, '; reserved value allowed in the data (NULL path)' if sentinel else ''))


def cpgm_fixed(name, kt, ctype, data, eps, tiers=Q, timeout=1200):
    n = len(data)
    j = cpgm(name, kt, ctype, n, epslo=eps, ephi=eps, tiers=tiers, timeout=timeout)
    j['defs'].update(FIXED_DATA=','.join('%dULL' % x for x in data), VERIF_VEC_CAP=n + 8)
    j['narrow'] = 0; j['profile_unwind'] = 2 * n + 60; j['profile_samples'] = 4; j['refine_rounds'] = 14
    j['cbmc_extra'] = ['--max-field-sensitivity-array-size', str(n + 16)]
    j['bounds'] = ('pgm_index_%s_{create,search,destroy} on ONE concrete sorted data set of %d keys (listed in the job definition), run-time epsilon = %d, EVERY non-reserved query key (symbolic); '
                   'decides the property for this data set only' % (ctype, n, eps))
    return j


def dynstep(name, mode, s1, s2, s3, kmax=4, vmax=1, idxl=10, eps=1, epsrec=1, tiers=Q, timeout=1200, mem_gb=14):
    d = dict(DMODE=mode, S1MAX=s1, S2MAX=s2, S3MAX=s3, LCAP=max(s1, s2, s3, 1), NLEV=3, KMAX=kmax, VMAX=vmax, BASE=2, BUFL=1, IDXL=idxl, EPS=eps, EPSREC=epsrec,
             MAXOUT=kmax + 1, VERIF_VEC_CAP=12, VERIF_VECVEC_CAP=36, VERIF_SET_CAP=kmax + 2)
    return dict(name=name, unit='dyn_step.cpp', harness='h_dyn_step.c', defs=d, narrow=16, timeout=timeout, tiers=tiers, mem_gb=mem_gb,
                bounds='INDUCTIVE STEP: ' + ['find/count/lower_bound', 'begin()..end() traversal', 'LSM invariants', 'size/empty/range', '', 'find', 'range(lo,hi)'][mode] +
                       ' after ONE insert_or_assign/erase from ANY state satisfying the LSM invariant with used_levels 1..4, buffer <= %d, next level <= %d, '
                       'third level <= %d entries (tombstones anywhere), keys 0..%d, values 0..%d; base=2, buffer_level=1 (buffer of 3, then 4, 8), index_level=%d'
                       % (s1, s2, s3, kmax, vmax, idxl))


def dynrej(name, kind, maxbulk=2, tiers=Q, timeout=900):
    d = dict(RKIND=kind, MAXBULK=maxbulk, VERIF_VEC_CAP=10, VERIF_VECVEC_CAP=36, VERIF_SET_CAP=8)
    return dict(name=name, unit='dyn_reject.cpp', harness='h_dyn_reject.c', defs=d, narrow=16, timeout=timeout, tiers=tiers,
                bounds=['every base 2..40 (buffer_level 1)', 'every bulk-load of %d pairs over keys 0..6, sorted or not' % maxbulk,
                        'insert_or_assign of every key 0..8 with every value 250..255 into a container bulk-loaded with %d pairs' % maxbulk,
                        'range(lo,hi) for every lo,hi in 0..9 on a container bulk-loaded with %d pairs' % maxbulk,
                        'every sorted bulk-load of %d pairs (repeated keys allowed) with mapped values 252..255, 255 being the reserved tombstone value, at every position' % maxbulk][kind])


def bucketing(name, n, topsize, topbits=32, eps=1, tiers=Q, timeout=1800, mem_gb=14):
    d = dict(KT['uint8_t']); d.update(N=n, EPS=eps, TOPSIZE=topsize, TOPBITS=topbits, VERIF_VEC_CAP=n + 4)
    return dict(name=name, unit='bucketing.cpp', harness='h_bucketing.c', defs=d, narrow=16, roots=['@u_bucketing'], timeout=timeout, tiers=tiers, mem_gb=mem_gb,
                noop=['memory_monitor6record'], unreachable=['_Rb_tree', 'system_category', 'system_error', 'bad_alloc', 'hugepage'],
                bounds='exactly %d sorted uint8_t keys, every non-reserved query, Epsilon=%d, TopLevelSize=%d, TopLevelBitSize=%d; sdsl::int_vector is the real code on malloc/realloc; '
                       'sdsl::memory_monitor::record stubbed (accounting only), huge-page allocator paths asserted unreachable' % (n, eps, topsize, topbits))


def sdsl_fixed(name, unit, ufunc, kt, data, eps=1, epsrec=1, tiers=Q, timeout=1800, mem_gb=14, fs=256, punwind=5000):
    n = len(data)
    j = sdslidx(name, unit, ufunc, kt, n, eps=eps, epsrec=epsrec, tiers=tiers, timeout=timeout, mem_gb=mem_gb)
    j['defs'].update(FIXED_DATA=','.join('%dULL' % x for x in data), VERIF_VEC_CAP=n + 8)
    # concrete profiling with an unwind limit of thousands (select-support blocks) takes longer than the symbolic run itself (9 s): start every loop at 1 and
    # let the unwinding assertions raise the bounds, all failing loops at once, doubling per round
    j['profile_samples'] = 1; j['profile_unwind'] = 40; j['profile_timeout'] = 120; j['refine_rounds'] = 80
    j['cbmc_extra'] = ['--max-field-sensitivity-array-size', str(fs)]
    j['bounds'] = ('ONE concrete sorted data set of %d %s keys %s and EVERY non-reserved query key (symbolic); Epsilon=%d, EpsilonRecursive=%d; sdsl (sd_vector, select/rank supports, int_vector) is the real code, '
                   'its construction is constant-propagated; decides the property for this data set only' % (n, kt, data if n <= 12 else '(listed in the job definition)', eps, epsrec))
    return j


def bucketing_fixed(name, kt, data, topsize, topbits, eps=1, tiers=Q, timeout=1200, mem_gb=14):
    n = len(data)
    j = bucketing(name, n, topsize, topbits=topbits, eps=eps, tiers=tiers, timeout=timeout, mem_gb=mem_gb)
    j['defs'].update(KT[kt]); j['defs'].update(FIXED_DATA=','.join('%dULL' % x for x in data), VERIF_VEC_CAP=n + 8)
    j['narrow'] = 0; j['profile_unwind'] = 2 * n + 80; j['refine_rounds'] = 12
    j['cbmc_extra'] = ['--max-field-sensitivity-array-size', str(max(n, topsize) + 16)]
    j['bounds'] = ('ONE concrete sorted data set of %d %s keys %s and EVERY non-reserved query key (symbolic); Epsilon=%d, TopLevelSize=%d, TopLevelBitSize=%d%s; sdsl::int_vector is the real code; '
                   'decides the property for this data set only' % (n, kt, data if n <= 12 else '(listed in the job definition)', eps, topsize, topbits, ' (dynamic cell width)' if topbits == 0 else ''))
    return j


def sdslidx(name, unit, ufunc, kt, n, eps=1, epsrec=1, tiers=Q, timeout=1800, mem_gb=14):
    d = dict(KT[kt]); d.update(N=n, EPS=eps, EPSREC=epsrec, UFUNC=ufunc, NO_EMPTY_RANGES=1, VERIF_VEC_CAP=n + 6)
    return dict(name=name, unit=unit, harness='h_bucketing.c', defs=d, narrow=0, roots=['@' + ufunc], timeout=timeout, tiers=tiers, mem_gb=mem_gb,
                noop=['memory_monitor6record'], unreachable=['_Rb_tree', 'system_category', 'system_error', 'bad_alloc', 'hugepage', '_Prime_rehash', '_Hash_bytes', 'basic_ostream', 'basic_istream', 'ios_base', '_M_create', '_M_mutate'],
                unreachable_def=['9serialize', '4loadER', 'structure_tree', '_Hashtable', 'basic_ostream', 'basic_istream'],
                bounds='exactly %d sorted %s keys, every non-reserved query, Epsilon=%d, EpsilonRecursive=%d; sdsl (sd_vector, select supports, int_vector, memory_manager) is the real code on '
                       'malloc/realloc; memory_monitor::record stubbed, huge-page paths asserted unreachable, log2 modelled to 16 fractional bits' % (n, kt, eps, epsrec))


def dynframe(name, fmode, nops, kmax=5, vmax=3, idxl=10, tiers=Q, timeout=1200):
    d = dict(FMODE=fmode, NOPS=nops, KMAX=kmax, VMAX=vmax, BASE=2, BUFL=1, IDXL=idxl, EPS=1, EPSREC=1, VERIF_VEC_CAP=10, VERIF_VECVEC_CAP=36, VERIF_SET_CAP=kmax + 2)
    return dict(name=name, unit='dyn_frame.cpp', harness='h_dyn_frame.c', defs=d, narrow=16, timeout=timeout, tiers=tiers, frame_stores=True,
                bounds='frame condition for DynamicPGMIndex %s after every history of %d updates over keys 0..%d (base 2, buffer_level 1, index_level %d)'
                       % (['find/count/lower_bound', 'begin()..end() traversal'][fmode], nops, kmax, idxl))


def seg(name, kt, fbits=32, tiers=Q, timeout=900):
    d = dict(KT[kt]); d.update(FLT='float' if fbits == 32 else 'double', FLT_BITS=fbits)
    if KT[kt]['KEY_BITS'] >= 32: d.update(SLOPE_POW2=1)
    return dict(name=name, unit='seg.cpp', harness='h_seg.c', defs=d, narrow=0, roots=['@u_seg'], timeout=timeout, tiers=tiers,
                bounds='Segment::operator() for EVERY %s key triple key <= k1 <= k2 (full width, reserved value excluded), slopes 0 and (1+m/8)*2^e, m 0..7, e -12..10 (%d-bit type), every intercept < 2^20' % (kt, fbits))


def mergek(name, skipdel, runmax=3, kmax=5, vmax=1, tiers=Q, timeout=900):
    d = dict(SKIPDEL=skipdel, RUNMAX=runmax, KMAX=kmax, VMAX=vmax, VERIF_VEC_CAP=8, VERIF_VECVEC_CAP=36, VERIF_SET_CAP=4)
    return dict(name=name, unit='dyn_kernels.cpp', harness='h_merge.c', defs=d, narrow=16, roots=['@u_merge'], timeout=timeout, tiers=tiers,
                bounds='DynamicPGMIndex::merge<%s,false>: ALL pairs of strictly sorted runs of 0..%d items over keys 0..%d, values 0..%d, tombstones anywhere' % ('true' if skipdel else 'false', runmax, kmax, vmax))


def losertree(name, nsrc, seqmax=2, keymax=3, tiers=Q, timeout=900):
    d = dict(NSRC=nsrc, KMAXSRC=4, SEQMAX=seqmax, KEYMAX=keymax, VERIF_VEC_CAP=10, VERIF_VECVEC_CAP=36, VERIF_SET_CAP=4)
    return dict(name=name, unit='dyn_kernels.cpp', harness='h_losertree.c', defs=d, narrow=16, roots=['@u_losertree'], timeout=timeout, tiers=tiers,
                recursion=[('F__ZN3pgm8internal9LoserTreeIhE11init_winnerERKh', 5)],     # init_winner nests log2(k)+1 <= 3 deep for k <= 4
                bounds='internal::LoserTree<uint8_t> with %d sources of 1..%d sorted keys in 0..%d each, popped to exhaustion as Iterator::advance() does' % (nsrc, seqmax, keymax))


def copyjob(name, kind, n, n2, modes, kmaxv=5, eps=1, epsrec=1, topsize=3, tiers=Q, timeout=900, mem_gb=14, extra=None):
    cls = ['PGMIndex<uint8_t,%d,%d>' % (eps, epsrec), 'BucketingPGMIndex<uint8_t,%d,%d,32>' % (eps, topsize), 'MultidimensionalPGMIndex<2,uint32_t,%d,%d>' % (eps, epsrec),
           'DynamicPGMIndex<uint8_t,uint8_t,PGMIndex<uint8_t,%d,%d>>(base 2, buffer_level 1, index_level 2)' % (eps, epsrec)][kind]
    d = dict(CKIND=kind, N=n, N2=n2, NKEYS=max(n, n2), MODES=modes, KMAXV=kmaxv, EPS=eps, EPSREC=epsrec, TOPSIZE=topsize, BASE=2, BUFL=1, IDXL=2,
             VERIF_VEC_CAP=max(n, n2) + 6, VERIF_VECVEC_CAP=36, VERIF_SET_CAP=kmaxv + 2, PGM_INDEX_VERIF_MISS_THRESHOLD=1)
    if extra: d.update(extra)
    if bin(modes).count('1') == 1: d['MODE1'] = modes.bit_length() - 1
    mnames = ['copy-construct', 'copy-assign over a default-constructed object', 'move-construct', 'move-assign over a default-constructed object',
              'copy-assign over a different index', 'move-assign over a different index', 'copy-construct then update the source', 'copy-construct then update the copy']
    job = dict(name=name, unit='copy.cpp', harness='h_copy.c', defs=d, narrow=16, roots=['@u_copy'], timeout=timeout, tiers=tiers, mem_gb=mem_gb,
               bounds='%s over exactly %d symbolic keys (values 0..%d); modes: %s; afterwards the source is destroyed and its storage reused for an index over %d other symbolic keys '
                      '(or updated by one symbolic insert_or_assign/erase); every query' % (cls, n, kmaxv, ', '.join(m for i, m in enumerate(mnames) if modes >> i & 1), n2))
    if kind in (1, 2):
        job.update(noop=['memory_monitor6record'], unreachable=['_Rb_tree', 'system_category', 'system_error', 'bad_alloc', 'hugepage'])
    return job


JOBS = {}
JOBS['C01'] = [
    e2e('e2e_u8_n1_e1_r1', 'uint8_t', 1, 1, 1),
    e2e('e2e_u8_n2_e1_r1', 'uint8_t', 2, 1, 1),
    e2e('e2e_u8_n2_e1_r0', 'uint8_t', 2, 1, 0),
    e2e('e2e_u8_n3_e1_r1', 'uint8_t', 3, 1, 1),
    e2e('e2e_u8_n3_e1_r0', 'uint8_t', 3, 1, 0),
    e2e('e2e_i8_n3_e1_r0', 'int8_t', 3, 1, 0),
    e2e('e2e_u8_n4_e1_r0', 'uint8_t', 4, 1, 0, tiers=T, timeout=3000),
    e2e('e2e_u8_n4_e1_r0_k15', 'uint8_t', 4, 1, 0, tiers=T, timeout=3000, extra=dict(ORD_HI=15), narrow=8),
    e2e('e2e_u8_n4_e1_r0_pAAAB', 'uint8_t', 4, 1, 0, timeout=1800, extra=dict(PATTERN=3)),
    e2e('e2e_u8_n4_e1_r0_pAABB', 'uint8_t', 4, 1, 0, timeout=1800, extra=dict(PATTERN=5)),
    e2e('e2e_u8_n4_e1_r1_pAAAA', 'uint8_t', 4, 1, 1, timeout=1800, extra=dict(PATTERN=7)),
    e2e('e2e_u8_n4_e1_r0_pAABC', 'uint8_t', 4, 1, 0, tiers=T, timeout=3000, extra=dict(PATTERN=1)),
    e2e('e2e_u8_n4_e1_r0_pABBC', 'uint8_t', 4, 1, 0, tiers=T, timeout=3000, extra=dict(PATTERN=2)),
    e2e('e2e_u8_n4_e1_r0_pABCC', 'uint8_t', 4, 1, 0, tiers=T, timeout=3000, extra=dict(PATTERN=4)),
    e2e('e2e_u8_n4_e1_r0_pABBB', 'uint8_t', 4, 1, 0, tiers=T, timeout=3000, extra=dict(PATTERN=6)),
    e2e('e2e_u8_n4_e1_r0_pAAAA', 'uint8_t', 4, 1, 0, tiers=T, timeout=3000, extra=dict(PATTERN=7)),
    e2e('e2e_i8_n5_e1_r0_pAAAAB', 'int8_t', 5, 1, 0, tiers=T, timeout=4000, extra=dict(PATTERN=7), mem_gb=30),
    e2e('e2e_i8_n4_e1_r0', 'int8_t', 4, 1, 0, tiers=T, timeout=4000, mem_gb=30),
    e2e('e2e_u8_n2_e1_r1_dbl', 'uint8_t', 2, 1, 1, flt='double', tiers=T, timeout=3000),
    e2e('e2e_u16_n2_e1_r1', 'uint16_t', 2, 1, 1, tiers=T, timeout=3000, narrow=32, mem_gb=30),
    e2e('e2e_i16_n3_e1_r0_top', 'int16_t', 3, 1, 0, tiers=T, timeout=4000, narrow=16, mem_gb=30, extra=dict(ORD_LO=65300)),
    e2e('e2e_u32_n2_e1_r1_top', 'uint32_t', 2, 1, 1, tiers=T, timeout=3000, narrow=16, mem_gb=30, extra=dict(ORD_LO=4294967000)),
    e2e('e2e_u8_n5_e1_r0_k31', 'uint8_t', 5, 1, 0, tiers=T, timeout=5000, extra=dict(ORD_HI=31), narrow=8, mem_gb=40),
]
JOBS['C03'] = [pla('pla_fit_k3_e0', 3, epsfix=0, maximality=False),
               pla('pla_fit_k3_e1_x63', 3, epsfix=1, xmax=63, ymax=6, maximality=False), pla('pla_fit_k3_e2_x31', 3, epsfix=2, xmax=31, ymax=6, maximality=False),
               pla('pla_fit_k3_e2', 3, epsfix=2, maximality=False, tiers=T, timeout=3000),
               pla('pla_fit_k4_e1_x15', 4, epsfix=1, xmax=15, ymax=6, maximality=False, tiers=T, timeout=3000)]
JOBS['C03'] += [mkseg('mkseg_n2_e0', 2, 0), mkseg('mkseg_n2_e1', 2, 1), mkseg('mkseg_n3_e1_chunk02', 3, 1, range_end=2), mkseg('mkseg_n4_e1_chunk03', 4, 1, range_end=3, tiers=T, timeout=3000), mkseg('mkseg_n3_e1', 3, 1, tiers=T, timeout=3000), ]
JOBS['C04'] = [pla('pla_max_k3_e%d_x15' % e, 3, epsfix=e, xmax=15, ymax=6) for e in (0, 1)] + [pla('pla_max_k3_e2_x7', 3, epsfix=2, xmax=7, ymax=12)] + \
              [pla('pla_max_k3_e1_x63', 3, epsfix=1, xmax=63, ymax=6, tiers=T, timeout=3000)]
JOBS['C14'] = [md('md_contains_n1', 0, 1, 3), md('md_contains_n2', 0, 2, 3)]
JOBS['C13'] = [md('md_range_n1', 1, 1, 3), md('md_range_n2', 1, 2, 3), md('md_range_n3_skip', 1, 3, 1, miss=0, epsrec=0, timeout=3000, tiers=T, mem_gb=40)]
JOBS['C05'] = [dyn('dyn_q_noidx_b0_o2', 0, 0, 2, idxl=10), dyn('dyn_q_noidx_b0_o3', 0, 0, 3, idxl=10), dyn('dyn_q_noidx_b0_o4', 0, 0, 4, idxl=10, timeout=1500)]
JOBS['C06'] = [dyn('dyn_it_noidx_b0_o2', 1, 0, 2, idxl=10), dyn('dyn_rng_noidx_b0_o2', 3, 0, 2, idxl=10), dyn('dyn_lbit_noidx_b0_o2', 4, 0, 2, idxl=10)]   # traversal after 3 or 4 symbolic operations: out of memory at the 14 GB cap - not a job
JOBS['C05'] += [mergek('merge_skip_r3', 1), mergek('merge_keep_r3', 0),
                mergek('merge_skip_r4', 1, runmax=4, kmax=7, tiers=T, timeout=1800), mergek('merge_keep_r4', 0, runmax=4, kmax=7, tiers=T, timeout=1800)]
JOBS['C06'] += [losertree('losertree_k%d' % k, k) for k in (1, 2, 3, 4)]
JOBS['C06'] += [losertree('losertree_k%d_s3_full' % k, k, seqmax=3, keymax=254, tiers=T, timeout=1800) for k in (3, 4)]
MODE_TAG = ['cc', 'ca', 'mc', 'ma', 'cao', 'mao', 'updsrc', 'updcopy']
QUICK_MODES = {0: (0, 2, 4), 1: (0, 1, 2, 4), 2: (0, 4), 3: (0, 2, 6)}      # the other modes run in the thorough tier
JOBS['C19'] = [copyjob('copy_%s_%s_n2' % (kn, MODE_TAG[m]), k, 2, 1, 1 << m, tiers=Q if m in QUICK_MODES[k] else T, timeout=1500)
               for k, kn, ms in ((0, 'pgm', range(6)), (1, 'bucket', range(6)), (2, 'md', range(6)), (3, 'dyn', (0, 2, 6, 7))) for m in ms]
JOBS['C15'] = [dyn('dyn_inv_noidx_b0_o2', 2, 0, 2, idxl=10), dyn('dyn_inv_noidx_b0_o3', 2, 0, 3, idxl=10), dyn('dyn_inv_noidx_b0_o4', 2, 0, 4, idxl=10, tiers=T, timeout=3000, mem_gb=40)]
JOBS['C05'] += [dynstep('dynstep_find_311', 5, 3, 1, 1, timeout=1500), dynstep('dynstep_find_310', 5, 3, 1, 0, tiers=T, timeout=3000), dynstep('dynstep_q_310', 0, 3, 1, 0, tiers=T, timeout=3000)]   # dynstep_q_321 (second level up to 2, third up to 1): no verdict in 3000 s (solver timeout) - not a job
# inductive-step traversal / range jobs (dynstep_it_310, dynstep_range_310): out of memory / no verdict within 3000 s in the full thorough pass - not jobs;
# two-level traversal is covered by the LoserTree kernel jobs and by the fixed-history jobs dyn_fixed_it_h24_s1 / dyn_fixed_rng_h24_s1   # dynstep_rng_310 (size/empty/range in one harness): out of memory at 34 GB - not a job; range alone is dynstep_range_310
JOBS['C15'] += [dynstep('dynstep_inv_322', 2, 3, 2, 2)]
JOBS['C11'] = [mapped('mapped_u8_n2', 'uint8_t', 2), mapped('mapped_i8_n2', 'int8_t', 2), mapped('mapped_u8_n3_dense', 'uint8_t', 3, ord_hi=3), mapped('mapped_i8_n3', 'int8_t', 3, tiers=T, timeout=3000)]

JOBS['C09'] = [bucketing('bucket_n2_t3', 2, 3), bucketing('bucket_n2_t4', 2, 4), bucketing('bucket_n3_t3', 3, 3),   bucketing('bucket_n4_t6', 4, 6, tiers=T, timeout=4000)]
EF_PROBE = [sdslidx('ef_u16_n1', 'eliasfano.cpp', 'u_eliasfano', 'uint16_t', 1, mem_gb=45, timeout=3600), sdslidx('ef_u16_n2', 'eliasfano.cpp', 'u_eliasfano', 'uint16_t', 2, mem_gb=45, timeout=3600, tiers=T)]
SEG_JOBS = [seg('seg_' + k.replace('_t', ''), k) for k in ('int8_t', 'uint8_t', 'uint64_t', 'int64_t', 'int32_t')] + [seg('seg_i8_dbl', 'int8_t', 64)] + [seg('seg_' + k.replace('_t', ''), k, tiers=T, timeout=3000) for k in ('int16_t', 'uint16_t')]
JOBS['C01'] += SEG_JOBS
JOBS['C02'] = JOBS['C01'] + [j_ for j_ in JOBS['C03'] if j_['name'] == 'mkseg_n3_e1_chunk02']
JOBS['C07'] = [e2e('e2e_u8_n3_e1_r1', 'uint8_t', 3, 1, 1), e2e('e2e_i8_n2_e1_r1', 'int8_t', 2, 1, 1), e2e('e2e_u8_n3_e1_r57_binsearch', 'uint8_t', 3, 1, 57)]   # e2e_u8_n4_e1_r1 (n = 4 with a recursive level): out of memory at the 14 GB cap in the full thorough pass - not a job
JOBS['C16'] = [e2e('frame_u8_n2_e1_r1', 'uint8_t', 2, 1, 1, extra=dict(WITH_FRAME=1)), e2e('frame_u8_n3_e1_r0', 'uint8_t', 3, 1, 0, extra=dict(WITH_FRAME=1))]
JOBS['C16'] += [mapped('mappedframe_u8_n2', 'uint8_t', 2, frame=True)]
JOBS['C16'] += [dynframe('dynframe_q_o2', 0, 2), dynframe('dynframe_it_o2', 1, 2, tiers=T, timeout=3000)]
JOBS['C20'] = [e2e('reject_u8_n%d' % n, 'uint8_t', n, 1, 1, extra=dict(ALLOW_SENTINEL=1)) for n in (1, 2)] + \
              [e2e('reject_i8_n2', 'int8_t', 2, 1, 0, extra=dict(ALLOW_SENTINEL=1))]
JOBS['C20'] += [pla('pla_reject_k3_e1', 3, epsfix=1, ymax=6, maximality=False, reject=True)]
JOBS['C20'] += [dynrej('dynrej_base', 0), dynrej('dynrej_bulk', 1, 3), dynrej('dynrej_tomb', 2), dynrej('dynrej_range', 3), dynrej('dynrej_bulktomb', 4, 3)]
JOBS['C18'] = [cpgm('cpgm_u32_n2', 'uint32_t', 'uint32', 2), cpgm('cpgm_i32_n2', 'int32_t', 'int32', 2), cpgm('cpgm_u64_n2_null_e1', 'uint64_t', 'uint64', 2, epslo=1, ephi=1, spread=7, sentinel=True, tiers=T, timeout=3000), cpgm('cpgm_u64_n2_null', 'uint64_t', 'uint64', 2, sentinel=True, tiers=T, timeout=3000),
               # cpgm_i64_n3 (64-bit keys, n = 3): no verdict in 1329 s of solver time under load - not a job
               cpgm('cpgm_u32_n2_eps4096', 'uint32_t', 'uint32', 2, epslo=1, ephi=4096, tiers=T, timeout=3000)]

E2E_OUT = ['n >= 5 keys end to end (n = 5 ran out of memory at 14 GB)', 'Epsilon > 1 and EpsilonRecursive > 1', 'key types wider than 8 bits end to end (C18 covers 32/64-bit keys at n <= 3 through the C interface)',
           'floating-point keys, double slopes', 'real OpenMP execution of the chunks (the chunk loop is run sequentially through hook H1)',
           'an off-by-one in the +2 slack of PGM_ADD_EPS is NOT detectable at n <= 4: the range then covers almost the whole array (measured with a hand mutation)']
MODEL = ['std::vector/std::set replaced by fixed-capacity models (model/verif_std.hpp): reallocation/growth behaviour of the real containers is outside the claim',
         'a read past size() but inside the model capacity is invisible to CBMC (ASan in the differential/replay run sees it), except where reserve() is modelled exactly']

PROPS = {
    'C01': dict(level='model_checking', outside=E2E_OUT, assumptions=MODEL,
                explanation='Real PGMIndex constructor + search() executed symbolically on every sorted array of exactly n uint8_t keys and every non-reserved query.'),
    'C02': dict(level='model_checking', outside=E2E_OUT, assumptions=MODEL,
                explanation='Same jobs as C01 (the harness asserts that the global lower bound lies in [lo,hi] for present and absent queries alike) plus the chunk-seam driver job of C03.'),
    'C03': dict(level='model_checking', outside=['more than 4 points per segment', 'floating-point keys', '64-bit coordinates', 'more than 2 chunks'], assumptions=MODEL,
                explanation='Real add_point/get_segment on k symbolic points against an exact integer oracle; real make_segmentation_par (sequential and 2 chunks via hook) on exact-n arrays, '
                            'with the points the builder must cover re-derived in the harness.'),
    'C04': dict(level='model_checking', outside=['keys beyond 0..15 (quick) / 0..63 (thorough) for the maximality oracle: the full 8-bit version gave no verdict in 900 s',
                                                 'the step from per-segment maximality to a minimal segment count is the standard greedy-exchange argument (written, trusted)'], assumptions=MODEL,
                explanation='A point is rejected by the real add_point only if an independent feasibility oracle (lines through two constraint points) finds no line fitting it together with the '
                            'current segment; count bound asserted in the e2e and driver jobs.'),
    'C05': dict(level='model_checking', outside=['default buffer_level (buffer of 585)', 'class-typed values', 'histories longer than NOPS', 'bulk-loads in the quick tier'], assumptions=MODEL,
                explanation='Real DynamicPGMIndex<uint8_t,uint8_t,PGMIndex<uint8_t,1,1>>(base 2, buffer_level 1): every history of NOPS updates over keys 0..5, then find/count/lower_bound against an array map.'),
    'C06': dict(level='model_checking', outside=['default buffer_level', 'class-typed values', 'histories longer than NOPS'], assumptions=MODEL,
                explanation='Same container; traversal from begin() and from lower_bound(k), range(lo,hi), size(), empty() against the array map; one job per query group.'),
    'C07': dict(level='model_checking', outside=E2E_OUT + ['at n <= 4 upper levels hold one or two segments: a weak instance of the routing bound'], assumptions=MODEL,
                explanation='The segment_for_key hook records the largest distance between the chosen segment and the predicted position; asserted <= EpsilonRecursive+1 in the e2e jobs with a recursive level.'),
    'C09': dict(level='model_checking', outside=['n > 3 (quick) / 4 (thorough)', 'key types wider than 8 bits', 'Epsilon > 1', 'TopLevelSize other than 3, 4, 6', 'TopLevelBitSize = 0 (dynamic cell width): the variable-width sdsl::int_vector<0> accessors ran out of memory at 40 GB for n = 2', 'huge-page allocator paths of sdsl::memory_manager (asserted unreachable)'],
                assumptions=MODEL + ['sdsl::int_vector and sdsl::memory_manager::resize are the real code on malloc/realloc; sdsl::memory_monitor::record (accounting) has an empty body'],
                explanation='Real BucketingPGMIndex constructor (segmentation, build_top_level writing the real sdsl::int_vector) and search(): same contract as C01/C02 plus the empty ranges at 0 and n outside [first,last].'),
    'C11': dict(level='model_checking', outside=['file/mmap layer (data pointer aimed at the array through the accessor hook)', 'n > 3', 'Epsilon > 1'], assumptions=MODEL,
                explanation='Real MappedPGMIndex::lower_bound/upper_bound/count/contains/begin/end/size on exact-n arrays with every duplicate structure against the std algorithms.'),
    'C13': dict(level='model_checking', outside=['more than 4 points', 'coordinates > 3', 'Dimensions 3 and 4, uint64_t', 'the default miss_threshold of 64 (hooked to 0/1 so that the bigmin jump runs)'], assumptions=MODEL,
                explanation='Real MultidimensionalPGMIndex<2,uint32_t,1> constructor and range() iterated to end(): count, multiplicity, in-box, Morton order, termination.'),
    'C14': dict(level='model_checking', outside=['more than 2 points', 'coordinates > 3', 'Dimensions 3 and 4, uint64_t'], assumptions=MODEL,
                explanation='Real constructor and contains(p) for every stored multiset and every query point in bounds.'),
    'C15': dict(level='model_checking', outside=['histories longer than NOPS', 'default buffer_level'], assumptions=MODEL,
                explanation='After every history of NOPS updates the accessor hook reads the private levels: sorted, within capacity, nothing beyond used_levels, index present over exactly the level keys / reset.'),
    'C16': dict(level='other', outside=['no thread schedule is explored (this family cannot)', 'covered: PGMIndex::search, MappedPGMIndex lower/upper_bound/count and DynamicPGMIndex find/count/lower_bound (traversal in the thorough tier); Multidimensional and the sdsl-backed classes are not'], assumptions=MODEL,
                explanation='Frame condition: a data race needs a write. The wrapper snapshots every byte the index owns, runs search() twice and asserts bit-identity and equal results for all inputs in bounds; '
                            'no write to shared state on any input means no schedule of readers has a race and each call returns what it returns alone.'),
    'C18': dict(level='model_checking', outside=['n > 3', 'key spread > 200 around the symbolic base', 'the dynamic_pgm_index_* functions'], assumptions=MODEL,
                explanation='The real c-interface/cpgm.cpp compiled into the unit: create/search/destroy with a run-time epsilon symbolic in 1..3, NULL on the reserved value.'),
    'C20': dict(level='model_checking', outside=['DynamicPGMIndex rejections (unsorted bulk-load, base, tombstone value, lo > hi), coordinate-width check: not claimed yet'], assumptions=MODEL,
                explanation='Data whose last key is the reserved value is rejected with std::invalid_argument, and only such data (e2e jobs with the sentinel allowed); add_point with a non-increasing key throws logic_error.'),
}
# fixed-data jobs: one concrete data set, every query symbolic
# (C interface on fixed data, cpgm_fixed(...): out of memory at 14 GB for n = 24 and n = 32 although the same data sets cost 10-25 s through PGMIndex directly; not debugged in the time left - not jobs)
JOBS['C18'] += [cpgm_fixed('cpgm_fixed_u32_n8_e1_dense_gap', 'uint32_t', 'uint32', fixed_data('uint32_t', 8, 11, 'dense_gap'), 1, tiers=T, timeout=1800)]     # 8 keys (a run of 7 consecutive keys, a wide gap, one key): the largest C-interface fixed-data job that gave a verdict (755 s, 9.3 GB first run); n = 24/32 run out of memory
JOBS['C11'] += [mapped_fixed('mapped_fixed_u32_n40_dups', 'uint32_t', dup_data('uint32_t', 40, 3))]
JOBS['C14'] += [md_fixed('md_fixed_contains_n16_s1', 0, 16, 1)]
# (range() on a fixed point set with a symbolic box: out of memory at 14 GB even for 5 points - the symbolic box drives every bigmin step; not a job)
JOBS['C05'] += [dyn_fixed('dyn_fixed_q_h24_s1', 0, 24, 1)]
JOBS['C06'] += [dyn_fixed('dyn_fixed_it_h24_s1', 1, 24, 1), dyn_fixed('dyn_fixed_rng_h24_s1', 3, 24, 1)]     # traversal from a SYMBOLIC lower_bound on this history: no verdict in 1200 s - not a job
JOBS['C15'] += [dyn_fixed('dyn_fixed_inv_h24_s1', 2, 24, 1), dyn_fixed('dyn_fixed_inv_h24_s1_i2', 2, 24, 1, idxl=2), dyn_fixed('dyn_fixed_inv_h32_s2_i2', 2, 32, 2, idxl=2, erase_p=0.15)]
JOBS['C05'] += [dyn_fixed('dyn_fixed_q_h24_s1_i2', 0, 24, 1, idxl=2)]
# probes, not claimed: Elias-Fano / Compressed on fixed data.  The symbolic run is cheap while the loop bounds are small (9 s, 1.2 GB) but the select-support
# construction loops (4096-entry blocks) must be unwound in full even on concrete data: 11.9 GB and out of memory at the 14 GB cap during bound refinement.
EF_FIXED_PROBE = [sdsl_fixed('ef_fixed_u32_n9', 'eliasfano.cpp', 'u_eliasfano', 'uint32_t', fixed_data('uint32_t', 9, 2, 'clustered')),
                  sdsl_fixed('cpgm_fixed_u32_n9', 'compressed.cpp', 'u_compressed', 'uint32_t', fixed_data('uint32_t', 9, 2, 'clustered'))]
# dynamic cell width: one data set per segments.size() in 2..9 (found with the native library: first (n, shape, seed) giving that many segments),
# so that the width computation is exercised on both sides of every power of two up to 8
BUCKET_SEGSETS = {2: (2, 'clustered', 1), 3: (4, 'uniform', 1), 4: (9, 'clustered', 2), 5: (15, 'clustered', 3), 7: (24, 'clustered', 3), 8: (32, 'clustered', 3), 9: (34, 'clustered', 1)}
JOBS['C09'] += [bucketing_fixed('bucket_fixed_u32_dyn_segs%d' % s, 'uint32_t', fixed_data('uint32_t', n, seed, shape), 4 if s < 6 else 6, 0, tiers=Q if s in (2, 4, 8) else T)
                for s, (n, shape, seed) in sorted(BUCKET_SEGSETS.items())]
JOBS['C09'] += [bucketing_fixed('bucket_fixed_u64_dyn_uniform_n24_t4', 'uint64_t', fixed_data('uint64_t', 24, 7, 'uniform'), 4, 0),     # 64-bit keys over the whole range: i * step approaches 2^64 in the last bucket
                bucketing_fixed('bucket_fixed_u64_w32_uniform_n24_t6', 'uint64_t', fixed_data('uint64_t', 24, 8, 'uniform'), 6, 32, tiers=T)]
JOBS['C09'] += [bucketing_fixed('bucket_fixed_u8_dyn_n2_t4', 'uint8_t', [192, 193], 4, 0, tiers=T),     # the input of seeded change s08_c09 (kept as a regression input)
                bucketing_fixed('bucket_fixed_u32_dyn_n24_t6', 'uint32_t', fixed_data('uint32_t', 24, 6, 'clustered'), 6, 0),
                bucketing_fixed('bucket_fixed_u32_w32_n40_t16', 'uint32_t', fixed_data('uint32_t', 40, 8, 'steps'), 16, 32, tiers=T),
                bucketing_fixed('bucket_fixed_u32_dyn_n40_t7', 'uint32_t', fixed_data('uint32_t', 40, 4, 'clustered'), 7, 0, tiers=T)]
# (data sets picked for their shape with the native library: three levels with 6-8 / 2 / 1 segments, i.e. a routed level with two segments)
FX_A = e2e_fixed('e2e_fixed_u32_n24_e1_r1_s6', 'uint32_t', 24, 1, 1, 6, 'clustered')
FX_B = e2e_fixed('e2e_fixed_u32_n40_e1_r1_steps8', 'uint32_t', 40, 1, 1, 8, 'steps')
FX_C = e2e_fixed('e2e_fixed_u32_n40_e1_r1_s4', 'uint32_t', 40, 1, 1, 4, 'clustered', tiers=T, timeout=1800)
FX_D = e2e_fixed('e2e_fixed_i64_n40_e2_r2_uniform', 'int64_t', 40, 2, 2, 2, 'uniform', flt='double', tiers=T, timeout=1800)
FX_E = e2e_fixed('e2e_fixed_u64_n80_e4_r4_s3', 'uint64_t', 80, 4, 4, 3, 'clustered', flt='double', tiers=T, timeout=1800)
FX_BIN = e2e_fixed('e2e_fixed_u64_n113_e1_r26_groups', 'uint64_t', 113, 1, 26, 1, 'groups', flt='double', timeout=1800)
FX_H = e2e_fixed('e2e_fixed_u64_n32_e1_r1_dense_high', 'uint64_t', 32, 1, 1, 5, 'dense_high', flt='double')
FX_HI = e2e_fixed('e2e_fixed_i64_n32_e1_r0_dense_high', 'int64_t', 32, 1, 0, 6, 'dense_high', flt='float', tiers=T, timeout=1800)
FX_G = e2e_fixed('e2e_fixed_u32_n28_e1_r1_dense_gap', 'uint32_t', 28, 1, 1, 9, 'dense_gap', tiers=T, timeout=1800)
FX_G2 = e2e_fixed('e2e_fixed_u64_n28_e2_r0_dense_gap', 'uint64_t', 28, 2, 0, 10, 'dense_gap', flt='double', tiers=T, timeout=1800)
JOBS['C07'] += [FX_A, FX_B, FX_C, FX_BIN, FX_G]
JOBS['C01'] += [FX_G, FX_G2]
JOBS['C02'] += [FX_G, FX_G2]
JOBS['C14'] += [md_fixed('md_fixed_contains_n16_s2', 0, 16, 2, tiers=T)]     # md_fixed_contains_n24_s3 (24 points, coordinates 0..31): out of memory at 14 GB after 497 s - not a job
JOBS['C11'] += [mapped_fixed('mapped_fixed_u32_n40_dups_s5', 'uint32_t', dup_data('uint32_t', 40, 5), tiers=T)]
JOBS['C05'] += [dyn_fixed('dyn_fixed_q_h24_s3', 0, 24, 3, tiers=T)]
JOBS['C06'] += [dict(dyn_fixed('dyn_fixed_it_h24_s3', 1, 24, 3, tiers=T), recursion=[('F__ZN3pgm8internal9LoserTreeIhE11init_winnerERKh', 6)])]     # this history leaves more non-empty levels than s1: init_winner nests deeper
JOBS['C15'] += [dyn_fixed('dyn_fixed_inv_h24_s3_i2', 2, 24, 3, idxl=2, tiers=T)]
JOBS['C16'] += [e2e_fixed('frame_fixed_u32_n24_e1_r1_s6', 'uint32_t', 24, 1, 1, 6, 'clustered', extra=dict(WITH_FRAME=1, SNAP_MAX=512)),
                e2e_fixed('frame_fixed_u32_n40_e1_r0_steps8', 'uint32_t', 40, 1, 0, 8, 'steps', extra=dict(WITH_FRAME=1, SNAP_MAX=512), tiers=T)]
JOBS['C01'] += [FX_A, FX_D, FX_E, FX_H, FX_HI]
JOBS['C02'] += [FX_BIN, FX_B, FX_D, FX_E, FX_H, FX_HI]
# (a symbolic LAST key on top of fixed data - harness switch SYM_LAST - ran out of memory at 14 GB even for n = 24: not a job)
PROPS['C19'] = dict(level='model_checking', assumptions=MODEL, workers=8,
                    outside=['CompressedPGMIndex and EliasFanoPGMIndex (sdsl sd_vector / select supports: out of memory, see C08/C10)',
                             'the copy/move of std::vector itself: libstdc++ container code is replaced by the model containers, whose copy allocates and whose move steals the buffer',
                             'indexes over more than 2 keys; self-assignment; DynamicPGMIndex assignment (the class has const members and provides none)',
                             'dangling references into the source OBJECT (not its heap buffers) are seen only as different answers after the storage is reused, not as a memory-safety failure'],
                    explanation='Real copy/move constructors and assignment operators (compiler-generated memberwise code of PGMIndex, MultidimensionalPGMIndex, DynamicPGMIndex; sdsl::int_vector copy/move code in '
                                'BucketingPGMIndex) executed on an index built by the real constructor over symbolic keys; the source is then destroyed and its storage reused for a different index (or updated, for '
                                'DynamicPGMIndex), and the copy must answer every query as the source did, with every memory access checked (freed-storage dereference = SAFETY failure).')
for p in JOBS: PROPS.setdefault(p, dict(level='model_checking', explanation='', outside=[], assumptions=MODEL))

# C17: the memory-safety obligations (SAFETY class) of one job per unit; boundary sizes n = 1, 2, 3 on purpose
JOBS['C17'] = [JOBS['C01'][0], JOBS['C01'][2], JOBS['C14'][0], JOBS['C13'][0], JOBS['C13'][1], JOBS['C05'][0], JOBS['C06'][0], JOBS['C06'][1], JOBS['C11'][0],
               JOBS['C18'][0]]
PROPS['C17'] = dict(level='model_checking', assumptions=MODEL,
                    outside=['sdsl-backed classes (Compressed, Elias-Fano, Bucketing)', 'the mmap/file layer', 'sizes beyond the per-job bounds',
                             'reads past size() but inside the model capacity (see assumptions)'],
                    explanation='CBMC pointer-dereference, bounds, deallocated/dead-object, division-by-zero and shift checks on every memory access of the translated real code, '
                                'for all inputs inside the bounds of one job per unit (static index, C interface, multidimensional contains/range, dynamic queries and traversal, mapped queries).')
