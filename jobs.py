"""Job tables: which unit wrapper x harness x configuration decides which property, at which tier."""

KT = {
    'uint8_t': dict(KEY='uint8_t', KEY_U='unsigned char', KEY_BITS=8, KEY_SIGNED=0),
    'int8_t': dict(KEY='int8_t', KEY_U='unsigned char', KEY_BITS=8, KEY_SIGNED=1),
    'uint16_t': dict(KEY='uint16_t', KEY_U='unsigned short', KEY_BITS=16, KEY_SIGNED=0),
    'int16_t': dict(KEY='int16_t', KEY_U='unsigned short', KEY_BITS=16, KEY_SIGNED=1),
    'uint32_t': dict(KEY='uint32_t', KEY_U='unsigned int', KEY_BITS=32, KEY_SIGNED=0),
    'int32_t': dict(KEY='int32_t', KEY_U='unsigned int', KEY_BITS=32, KEY_SIGNED=1),
    'uint64_t': dict(KEY='uint64_t', KEY_U='unsigned long', KEY_BITS=64, KEY_SIGNED=0),
    'int64_t': dict(KEY='int64_t', KEY_U='unsigned long', KEY_BITS=64, KEY_SIGNED=1),
}


def e2e(name, kt, n, eps, epsrec, flt='float', tiers=('quick', 'thorough'), timeout=900, unwind=None, extra=None):
    d = dict(KT[kt]); d.update(N=n, NMIN=n, EPS=eps, EPSREC=epsrec, FLT=flt, VERIF_VEC_CAP=n + 4)
    if extra: d.update(extra)
    return dict(name=name, unit='pgm_e2e.cpp', harness='h_pgm_e2e.c', defs=d, cbmc_extra=['--no-array-field-sensitivity'],  narrow=16 if KT[kt]['KEY_BITS'] == 8 else 0,
                timeout=timeout, tiers=tiers,
                bounds='exactly n = %d keys of %s (all values except the reserved maximum), every query value except the reserved one, Epsilon=%d, '
                       'EpsilonRecursive=%d, %s slopes; sequential construction; loops unwound %d times with unwinding assertions'
                       % (n, kt, eps, epsrec, flt, unwind or n + 3))


def pla(name, k, epsfix=None, epsmax=2, ymax=12, xmax=255, maximality=True, tiers=('quick', 'thorough'), timeout=900):
    d = dict(KT['uint8_t']); d.update(NPTS=k, EPSMAX=epsmax, YMAX=ymax, XMAX=xmax, VERIF_VEC_CAP=k + 2)
    if epsfix is not None: d.update(EPSFIX=epsfix, EPSMAX=epsfix)
    if not maximality: d.update(NO_MAXIMALITY=1)
    return dict(name=name, unit='pla.cpp', harness='h_pla.c', defs=d, narrow=16, timeout=timeout, tiers=tiers,
                bounds='%d points with strictly increasing uint8_t keys in 0..%d and non-decreasing ranks <= %d, epsilon %s; %s'
                       % (k, xmax, ymax, ('= %d' % epsfix) if epsfix is not None else 'symbolic in 0..%d' % epsmax,
                          'fit of every accepted point + maximality (exact feasibility oracle)' if maximality else 'fit of every accepted point (no maximality oracle)'))


JOBS = {
    'C01': [
        e2e('e2e_u8_n1_e1_r1', 'uint8_t', 1, 1, 1),
        e2e('e2e_u8_n2_e1_r1', 'uint8_t', 2, 1, 1),
        e2e('e2e_u8_n2_e1_r0', 'uint8_t', 2, 1, 0),
        e2e('e2e_u8_n3_e1_r1', 'uint8_t', 3, 1, 1),
        e2e('e2e_u8_n3_e1_r0', 'uint8_t', 3, 1, 0),
        e2e('e2e_u8_n4_e1_r0', 'uint8_t', 4, 1, 0, tiers=('thorough',), timeout=3000),
        e2e('e2e_u8_n5_e1_r0', 'uint8_t', 5, 1, 0, tiers=('thorough',), timeout=3400),
    ],
}

JOBS['C03'] = [pla('pla_fit_k3_e%d' % e, 3, epsfix=e, maximality=False) for e in (0, 1, 2)] + [pla('pla_fit_k4_e1', 4, epsfix=1, maximality=False)]
JOBS['C04'] = [pla('pla_max_k3_e%d_x15' % e, 3, epsfix=e, xmax=15, ymax=6) for e in (0, 1)] + [pla('pla_max_k3_e1_x63', 3, epsfix=1, xmax=63, ymax=6, tiers=('thorough',), timeout=3000)]

JOBS['C14'] = [md('md_contains_n1', 0, 1, 3), md('md_contains_n2', 0, 2, 3)]
JOBS['C13'] = [md('md_range_n1', 1, 1, 3), md('md_range_n2', 1, 2, 3)]

JOBS['C05'] = [dyn('dyn_b0_o2', 0, 2), dyn('dyn_b0_o3', 0, 3), dyn('dyn_noidx_b0_o4', 0, 4, idxl=10), dyn('dyn_noidx_b2_o2', 2, 2, idxl=10)]

PROPS = {
    'C05': dict(level='model_checking', explanation='', outside=[], assumptions=[]),
    'C13': dict(level='model_checking', explanation='', outside=[], assumptions=[]),
    'C14': dict(level='model_checking', explanation='', outside=[], assumptions=[]),
    'C03': dict(level='model_checking', explanation='', outside=[], assumptions=[]),
    'C04': dict(level='model_checking', explanation='', outside=[], assumptions=[]),
    'C01': dict(level='model_checking', explanation='', outside=[], assumptions=[]),
}
