"""Job tables: which unit wrapper x harness x configuration decides which property, at which tier."""

KT = {
    'uint8_t': dict(KEY='uint8_t', KEY_U='unsigned char', KEY_BITS=8, KEY_SIGNED=0),
    'int8_t': dict(KEY='int8_t', KEY_U='unsigned char', KEY_BITS=8, KEY_SIGNED=1),
    'uint16_t': dict(KEY='uint16_t', KEY_U='unsigned short', KEY_BITS=16, KEY_SIGNED=0),
    'int16_t': dict(KEY='int16_t', KEY_U='unsigned short', KEY_BITS=16, KEY_SIGNED=1),
    'uint32_t': dict(KEY='uint32_t', KEY_U='unsigned int', KEY_BITS=32, KEY_SIGNED=0),
    'int32_t': dict(KEY='int32_t', KEY_U='unsigned int', KEY_BITS=32, KEY_SIGNED=1),
    'uint64_t': dict(KEY='uint64_t', KEY_U='unsigned long', KEY_BITS=64, KEY_SIGNED=0),
    'int64_t': dict(KEY='int64_t', KEY_U='unsigned long', KEY_BITS=64, KEY_SIGNED=1),
}


def e2e(name, kt, n, eps, epsrec, flt='float', tiers=('quick', 'thorough'), timeout=900, unwind=None, extra=None):
    d = dict(KT[kt]); d.update(N=n, NMIN=n, EPS=eps, EPSREC=epsrec, FLT=flt, VERIF_VEC_CAP=n + 4)
    if extra: d.update(extra)
    return dict(name=name, unit='pgm_e2e.cpp', harness='h_pgm_e2e.c', defs=d, cbmc_extra=['--no-array-field-sensitivity'],  narrow=16 if KT[kt]['KEY_BITS'] == 8 else 0,
                timeout=timeout, tiers=tiers,
                bounds='exactly n = %d keys of %s (all values except the reserved maximum), every query value except the reserved one, Epsilon=%d, '
                       'EpsilonRecursive=%d, %s slopes; sequential construction; loops unwound %d times with unwinding assertions'
                       % (n, kt, eps, epsrec, flt, unwind or n + 3))


def pla(name, k, epsmax=2, ymax=12, tiers=('quick', 'thorough'), timeout=900):
    d = dict(KT['uint8_t']); d.update(NPTS=k, EPSMAX=epsmax, YMAX=ymax, VERIF_VEC_CAP=k + 2)
    return dict(name=name, unit='pla.cpp', harness='h_pla.c', defs=d, narrow=16, timeout=timeout, tiers=tiers,
                bounds='%d points with strictly increasing 8-bit keys and non-decreasing ranks <= %d, epsilon symbolic in 0..%d' % (k, ymax, epsmax))


JOBS = {
    'C01': [
        e2e('e2e_u8_n1_e1_r1', 'uint8_t', 1, 1, 1),
        e2e('e2e_u8_n2_e1_r1', 'uint8_t', 2, 1, 1),
        e2e('e2e_u8_n2_e1_r0', 'uint8_t', 2, 1, 0),
        e2e('e2e_u8_n3_e1_r1', 'uint8_t', 3, 1, 1),
        e2e('e2e_u8_n3_e1_r0', 'uint8_t', 3, 1, 0),
        e2e('e2e_u8_n4_e1_r0', 'uint8_t', 4, 1, 0, tiers=('thorough',), timeout=3000),
        e2e('e2e_u8_n5_e1_r0', 'uint8_t', 5, 1, 0, tiers=('thorough',), timeout=3400),
    ],
}

JOBS['C03'] = [pla('pla_k3', 3), pla('pla_k4', 4)]

PROPS = {
    'C03': dict(level='model_checking', explanation='', outside=[], assumptions=[]),
    'C01': dict(level='model_checking', explanation='', outside=[], assumptions=[]),
}
