#!/bin/bash
# eval_seed.sh <seed-name> <patch-file> <PROP> [extra check.py args]   -- apply the patch to a scratch worktree of /repo HEAD and run PROP's checks against it
set -e
name=$1; patch=$2; prop=$3; shift 3
wt=/tmp/seedwt_$name
git -C /repo worktree remove --force $wt 2>/dev/null || true
git -C /repo worktree add -q --detach $wt HEAD
git -C $wt apply "$patch"
cd /verif
set +e
VERIF_REPO=$wt VERIF_TAG=seed_${name}_ ./check.py $prop "$@" > /tmp/w/seed_${name}_${prop}.out 2>&1
rc=$?
set -e
grep -a "^\[$prop\]\|^VIOLATION\|^INCONCLUSIVE\|^KNOWN" /tmp/w/seed_${name}_${prop}.out | cut -c1-260
echo "seed=$name prop=$prop exit=$rc"
git -C /repo worktree remove --force $wt
rm -rf /verif/build/seed_${name}_*
