#!/usr/bin/env python3
"""(re)writes Appendix A of DESIGN.md: every job of every claimed property with its tier and stated bounds, from jobs.py"""
import re, sys
sys.path.insert(0, '/verif')
from jobs import JOBS, PROPS
out = ['## Appendix A. Job table (generated from jobs.py by tools/gen_design_jobs.py)', '',
       'quick = run on every change; thorough = quick jobs plus the deeper ones. Every bound below is the whole claim of that job; measured solver times and memory are in `evidence/<ID>.json`.', '']
for p in sorted(JOBS):
    out.append('**%s** (%s)' % (p, PROPS[p]['level']))
    out.append('')
    out.append('| job | tier | unit / harness | bounds |'); out.append('|---|---|---|---|')
    for j in JOBS[p]:
        out.append('| %s | %s | %s / %s | %s |' % (j['name'], 'quick+thorough' if 'quick' in j.get('tiers', ('quick', 'thorough')) else 'thorough', j['unit'], j['harness'], j.get('bounds', '').replace('|', '\\|')))
    if PROPS[p].get('outside'): out.append(''); out.append('Outside the claim: ' + '; '.join(PROPS[p]['outside']) + '.')
    out.append('')
block = '<!-- JOBS_BEGIN -->\n' + '\n'.join(out) + '\n<!-- JOBS_END -->'
d = open('/verif/DESIGN.md').read()
if 'JOBS_BEGIN' in d: d = re.sub(r'<!-- JOBS_BEGIN -->.*?<!-- JOBS_END -->', lambda m: block, d, flags=re.S)
else: d = d.rstrip('\n') + '\n\n' + block + '\n'
open('/verif/DESIGN.md', 'w').write(d)
print('appendix written:', sum(len(v) for v in JOBS.values()), 'job rows')
