#!/usr/bin/env python3
"""Prototype LLVM-14 textual IR -> C translator (typed pointers), for feeding clang -O1 output of
the real PGM-index templates to CBMC's C front end.  Scratch feasibility probe, not framework code."""
import re, sys, os

OPTS = {'narrow': 0, 'noop': [], 'unreachable': [], 'unreachable_def': [], 'frame_stores': False}   # noop: regexes of void functions given an empty body (logging / memory accounting of third-party code)
#   # narrow=B: wide mul/div/int->fp are computed on B-bit signed operands under a CHECKED assertion that the operands fit

class Ty:
    def __init__(s, k, **kw): s.k = k; s.__dict__.update(kw)
    def __repr__(s): return tystr(s)

def tystr(t):
    k = t.k
    if k == 'int': return 'i%d' % t.bits
    if k in ('float', 'double', 'x86_fp80', 'void', 'label', 'metadata'): return k
    if k == 'ptr': return tystr(t.to) + '*'
    if k == 'arr': return '[%d x %s]' % (t.n, tystr(t.el))
    if k == 'named': return t.name
    if k == 'struct': return ('<{%s}>' if t.packed else '{%s}') % ', '.join(map(tystr, t.els))
    if k == 'func': return '%s (%s%s)' % (tystr(t.ret), ', '.join(map(tystr, t.args)), ', ...' if t.va else '')
    return '?' + k

TOK = re.compile(r'''\s*(?:(c"(?:[^"\\]|\\[0-9A-Fa-f]{2}|\\\\)*")|("(?:[^"])*")|([%@]"[^"]*"|[%@][-\w.$]+)|(<\{|\}>|\.\.\.|[-+]?0x[KMLH]?[0-9A-Fa-f]+|[-+]?\d+\.\d*(?:[eE][-+]?\d+)?|[-+]?\d+|[A-Za-z_][\w.]*|[\[\]{}()<>,=*!#]))''')

def tokenize(s):
    out = []; i = 0; n = len(s)
    while i < n:
        m = TOK.match(s, i)
        if not m:
            if s[i:].strip() == '': break
            raise SyntaxError('tok: ' + s[i:i + 60])
        out.append(m.group(m.lastindex)); i = m.end()
    return out

class P:
    def __init__(s, toks): s.t = toks; s.i = 0
    def peek(s, o=0): return s.t[s.i + o] if s.i + o < len(s.t) else None
    def next(s): v = s.t[s.i]; s.i += 1; return v
    def eat(s, x):
        if s.peek() == x: s.i += 1; return True
        return False
    def expect(s, x):
        v = s.next()
        if v != x: raise SyntaxError('expected %r got %r near %r' % (x, v, ' '.join(s.t[max(0, s.i - 8):s.i + 8])))
    def done(s): return s.i >= len(s.t)

    def type(s):
        t = s.next()
        if re.fullmatch(r'i\d+', t): ty = Ty('int', bits=int(t[1:]))
        elif t in ('float', 'double', 'x86_fp80', 'void', 'label', 'metadata'): ty = Ty(t)
        elif t[0] == '%': ty = Ty('named', name=t)
        elif t == '[':
            n = int(s.next()); s.expect('x'); el = s.type(); s.expect(']'); ty = Ty('arr', n=n, el=el)
        elif t in ('{', '<{'):
            els = []
            close = '}' if t == '{' else '}>'
            while s.peek() != close:
                els.append(s.type()); s.eat(',')
            s.next(); ty = Ty('struct', els=els, packed=(t == '<{'))
        elif t == '<':
            raise SyntaxError('vector type unsupported')
        elif t == 'opaque': ty = Ty('struct', els=[], packed=False)
        else: raise SyntaxError('type? %r' % t)
        while True:
            if s.peek() == '*': s.next(); ty = Ty('ptr', to=ty)
            elif s.peek() == '(' :
                s.next(); args = []; va = False
                while s.peek() != ')':
                    if s.peek() == '...': s.next(); va = True
                    else: args.append(s.type())
                    s.eat(',')
                s.next(); ty = Ty('func', ret=ty, args=args, va=va)
            else: break
        return ty

PARAM_ATTRS = {'noundef', 'nonnull', 'nocapture', 'readonly', 'writeonly', 'noalias', 'signext', 'zeroext', 'returned',
               'readnone', 'immarg', 'inreg', 'nofree', 'nest', 'swiftself'}

def skip_attrs(p):
    while True:
        t = p.peek()
        if t in PARAM_ATTRS: p.next()
        elif t in ('align', 'dereferenceable', 'dereferenceable_or_null'):
            p.next()
            if p.peek() == '(': p.next(); p.next(); p.expect(')')
            else: p.next()
        elif t in ('sret', 'byval', 'byref', 'inalloca', 'preallocated', 'elementtype'):
            p.next(); p.expect('('); p.type(); p.expect(')')
        else: break

class Mod:
    def __init__(s):
        s.types = {}; s.globals = {}; s.gorder = []; s.funcs = {}; s.decls = {}; s.forder = []; s.nounwind_groups = set(); s.fattr = {}

CINT = {1: '_Bool', 8: 'unsigned char', 16: 'unsigned short', 32: 'unsigned int', 64: 'unsigned long', 128: 'unsigned __int128'}
SINT = {8: 'signed char', 16: 'short', 32: 'int', 64: 'long', 128: '__int128'}

def mangle(n):
    n = n[1:]
    if n.startswith('"'): n = n[1:-1]
    return re.sub(r'[^A-Za-z0-9_]', lambda m: '_%02x' % ord(m.group(0)), n)

class Gen:
    def __init__(s, mod): s.m = mod; s.anon = {}; s.anon_defs = []; s.fpt = {}

    def rnd(s, bits):
        for b in (1, 8, 16, 32, 64, 128):
            if bits <= b: return b
        raise ValueError(bits)

    def cty(s, t):
        k = t.k
        if k == 'int': return CINT[s.rnd(t.bits)]
        if k == 'float': return 'float'
        if k == 'double': return 'double'
        if k == 'x86_fp80': return 'fp80_t'
        if k == 'void': return 'void'
        if k == 'ptr':
            if t.to.k == 'func': return s.fptr(t.to)
            if t.to.k == 'void': return 'void*'
            return s.cty(t.to) + '*'
        if k == 'named': return 'struct T_' + mangle(t.name)
        if k == 'struct': return s.anon_struct(t)
        if k == 'arr': return s.arr_struct(t)
        if k == 'func': return s.fptr(t) .replace('(*)', '')
        raise ValueError(k)

    def fptr(s, ft):
        key = tystr(ft)
        if key not in s.fpt:
            nm = 'fp_%d' % len(s.fpt)
            s.fpt[key] = nm
            args = ', '.join(s.cty(a) for a in ft.args) or ('void' if not ft.va else '')
            if ft.va: args = (args + ', ...') if args else 'void'
            s.anon_defs.append('typedef %s (*%s)(%s);' % (s.cty(ft.ret), nm, args if args else 'void'))
        return s.fpt[key]

    def arr_struct(s, t):
        key = 'A' + tystr(t)
        if key not in s.anon:
            nm = 'struct Ar_%d' % len(s.anon)
            s.anon[key] = nm
            el = s.cty(t.el)
            s.anon_defs.append('%s { %s f0[%d]; };' % (nm, el, max(t.n, 1)))
        return s.anon[key]

    def anon_struct(s, t, arr=False):
        key = ('A' if arr else '') + tystr(t)
        if key not in s.anon:
            nm = 'struct An_%d' % len(s.anon)
            s.anon[key] = nm
            s.anon_defs.append(s.struct_body(nm, t))
        return s.anon[key]

    def struct_body(s, nm, t):
        fs = []
        for i, e in enumerate(t.els):
            fs.append('  ' + s.decl(e, 'f%d' % i) + ';')
        if not fs: fs = ['  char _empty;']
        return '%s {\n%s\n}%s;' % (nm, '\n'.join(fs), ' __attribute__((packed))' if t.packed else '')

    def decl(s, t, name):
        return '%s %s' % (s.cty(t), name)

    # ---- x86-64 data layout (e-i64:64-f80:128): size / alignment / leaf decomposition of IR types
    def resolve(s, t):
        while t.k == 'named': t = s.m.types[t.name]
        return t

    def size_align(s, t):
        t = s.resolve(t); k = t.k
        if k == 'int':
            b = s.rnd(t.bits) // 8 if t.bits > 1 else 1
            return b, min(b, 16)
        if k == 'float': return 4, 4
        if k == 'double': return 8, 8
        if k == 'x86_fp80': return 16, 16
        if k == 'ptr': return 8, 8
        if k == 'arr':
            sz, al = s.size_align(t.el); return sz * t.n, al
        if k == 'struct':
            off = 0; mal = 1
            for e in t.els:
                sz, al = s.size_align(e)
                if t.packed: al = 1
                off = (off + al - 1) // al * al + sz; mal = max(mal, al)
            return (off + mal - 1) // mal * mal, mal
        raise ValueError('sizeof ' + k)

    def leaves(s, t, base=0, path=''):
        """[(offset, size, path, scalar type)] of all scalar leaves of t"""
        r = s.resolve(t); k = r.k
        if k == 'arr':
            esz, _ = s.size_align(r.el); out = []
            for i in range(r.n): out += s.leaves(r.el, base + i * esz, '%s.f0[%d]' % (path, i))
            return out
        if k == 'struct':
            off = 0; out = []
            for i, e in enumerate(r.els):
                sz, al = s.size_align(e)
                if r.packed: al = 1
                off = (off + al - 1) // al * al
                out += s.leaves(e, base + off, '%s.f%d' % (path, i)); off += sz
            return out
        sz, _ = s.size_align(r)
        return [(base, sz, path, r)]

def parse_module(text):
    m = Mod()
    lines = text.split('\n')
    i = 0
    while i < len(lines):
        ln = lines[i]
        if ln.startswith('%') and ' = type ' in ln:
            name, rest = ln.split(' = type ', 1)
            m.types[name.strip()] = P(tokenize(rest)).type()
        elif ln.startswith('@'):
            m.gorder.append(ln)
        elif ln.startswith('declare '):
            parse_decl(m, ln)
        elif ln.startswith('attributes #'):
            mo = re.match(r'attributes #(\d+) = \{(.*)\}', ln)
            if mo and re.search(r'(^|\s)nounwind(\s|$)', mo.group(2)): m.nounwind_groups.add(mo.group(1))
        elif ln.startswith('define '):
            body = []
            hdr = ln; i += 1
            while lines[i] != '}': body.append(lines[i]); i += 1
            parse_func(m, hdr, body)
        i += 1
    return m

LINK = {'private', 'internal', 'linkonce_odr', 'weak_odr', 'external', 'dso_local', 'local_unnamed_addr', 'unnamed_addr',
        'weak', 'linkonce', 'available_externally', 'common', 'hidden', 'default', 'protected', 'noundef', 'nonnull',
        'zeroext', 'signext', 'noalias', 'fastcc', 'ccc', 'dso_preemptable', 'thread_local', 'appending', 'extern_weak'}

def parse_sig(p):
    while p.peek() in LINK or p.peek() in ('align', 'dereferenceable', 'dereferenceable_or_null'):
        skip_attrs(p)
        if p.peek() in LINK: p.next()
    skip_attrs(p)
    ret = p.type()
    name = p.next()
    p.expect('(')
    args = []; va = False
    while p.peek() != ')':
        if p.peek() == '...': p.next(); va = True
        else:
            t = p.type(); skip_attrs(p)
            an = None
            if p.peek() and p.peek()[0] == '%': an = p.next()
            args.append((t, an))
        p.eat(',')
    p.next()
    return ret, name, args, va

def parse_decl(m, ln):
    p = P(tokenize(ln.split(' #')[0])); p.expect('declare')
    ret, name, args, va = parse_sig(p)
    m.decls[name] = (ret, [a for a, _ in args], va)
    m.fattr[name] = (re.findall(r' #(\d+)', ln), ' nounwind' in ln.split(')')[-1])

class Fn: pass

def parse_func(m, hdr, body):
    h = hdr[:hdr.rindex('{')]
    h = re.sub(r' personality .*$', '', h); h = re.sub(r' comdat(\([^)]*\))?', '', h)
    h = re.sub(r' (#\d+|align \d+|section "[^"]*"|uwtable|nounwind|mustprogress)+\s*$', '', h)
    groups = re.findall(r' #(\d+)', hdr.split(')')[-1]); kw = ' nounwind' in hdr.split(')')[-1]
    h = re.sub(r'( #\d+)+', '', h)
    p = P(tokenize(h)); p.expect('define')
    f = Fn(); f.ret, f.name, f.args, f.va = parse_sig(p)
    m.fattr[f.name] = (groups, kw)
    f.blocks = []; cur = None; nxt = 0
    # implicit numbering: unnamed args then entry block
    for k, (t, an) in enumerate(f.args):
        if an is None: f.args[k] = (t, '%%%d' % nxt); nxt += 1
        elif re.fullmatch(r'%\d+', an): nxt = max(nxt, int(an[1:]) + 1)
    joined = []
    for ln in body:
        s = ln.rstrip()
        if not s.strip() or s.lstrip().startswith(';'): continue
        if ' c"' not in s: s = re.sub(r'(, | )![\w.]+ !\d+', '', s.split(' ;')[0]).rstrip()
        st = s.strip()
        if joined and (re.match(r'^(cleanup|catch |filter |to label )', st) or
                       (joined[-1].lstrip().startswith('switch ') and not joined[-1].rstrip().endswith(']'))):
            joined[-1] += ' ' + st
        else:
            joined.append(s)
    for s in joined:
        mm = re.match(r'^([-\w.$]+|"[^"]*"):', s)
        if mm:
            cur = ('%' + mm.group(1), []); f.blocks.append(cur); continue
        if cur is None:
            cur = ('%%%d' % nxt, []); nxt += 1; f.blocks.append(cur)
        cur[1].append(s.strip())
    m.funcs[f.name] = f; m.forder.append(f.name)

def landing_done(s):
    if s.startswith('switch'): return s.endswith(']')
    return False

# ---------------------------------------------------------------- lowering
import struct as _st

class FG:
    """per-function generator"""
    def __init__(s, g, f):
        s.g = g; s.f = f; s.m = g.m; s.vt = {}; s.out = []; s.tmp = 0; s.defs = {}; s.allocas = set()
    def v(s, name): return 'v_' + mangle(name)
    def L(s, name): return 'L_' + mangle(name)

    def resolve(s, t):
        while t.k == 'named': t = s.m.types[t.name]
        return t

    def value(s, p, ty):
        """parse a value of type ty from parser p, return C expr"""
        t = p.next()
        g = s.g
        if t[0] == '%': return s.v(t)
        if t[0] == '@':
            g.used_globals.add(t)
            return '((%s)&g_%s)' % (g.cty(ty), mangle(t)) if t not in s.m.funcs and t not in s.m.decls else '((%s)%s)' % (g.cty(ty), fname(t))
        if t in ('null',): return '((%s)0)' % g.cty(ty)
        if t in ('undef', 'poison', 'zeroinitializer'):
            if ty.k in ('int', 'float', 'double', 'x86_fp80', 'ptr'): return '((%s)0)' % g.cty(ty)
            return '(%s){0}' % g.cty(ty)
        if t == 'true': return '1'
        if t == 'false': return '0'
        if ty.k == 'int':
            n = int(t); b = g.rnd(ty.bits)
            if n < 0: n += 1 << ty.bits
            if b == 128: return '((((unsigned __int128)%dUL)<<64)|%dUL)' % (n >> 64, n & (2**64 - 1))
            return '((%s)%dUL)' % (CINT[b], n)
        if ty.k in ('float', 'double'):
            if t.startswith('0x'):
                d = _st.unpack('>d', bytes.fromhex(t[2:].rjust(16, '0')))[0]
            else: d = float(t)
            if d != d: return '(0.0/0.0)'
            if d in (float('inf'), float('-inf')): return '(%s1.0/0.0)' % ('-' if d < 0 else '')
            return '((%s)%s)' % (g.cty(ty), d.hex())
        if ty.k == 'x86_fp80':
            assert t.startswith('0xK'), t
            raw = int(t[3:], 16); sign = raw >> 79; ex = (raw >> 64) & 0x7fff; man = raw & (2**64 - 1)
            if ex == 0 and man == 0: return '((fp80_t)0)'
            # value = man * 2^(ex-16383-63)
            return '(%s((fp80_t)%dUL) * FP80_POW2(%d))' % ('-' if sign else '', man, ex - 16383 - 63)
        if t in ('getelementptr', 'bitcast', 'ptrtoint', 'inttoptr'):
            return s.constexpr(p, t, ty)
        raise SyntaxError('value? %r of %s' % (t, tystr(ty)))

    def tv(s, p):
        ty = p.type(); skip_attrs(p); return ty, s.value(p, ty)

    def constexpr(s, p, op, ty):
        g = s.g
        if op == 'getelementptr':
            p.eat('inbounds'); p.expect('(')
            bt = p.type(); p.expect(',')
            pt, base = s.tv(p)
            idx = []
            while p.eat(','):
                p.eat('inrange'); idx.append(s.tv(p))
            p.expect(')')
            return s.gep(bt, base, idx, ty)
        p.expect('(')
        st, sv = s.tv(p); p.expect('to'); dt = p.type(); p.expect(')')
        return '((%s)%s)' % (g.cty(dt), sv)

    def gep(s, bt, base, idx, rty):
        g = s.g
        e = '(%s)' % base
        cur = bt
        first = True
        for (it, iv) in idx:
            sidx = '((long)(%s)%s)' % (SINT[g.rnd(it.bits)], iv) if it.bits < 64 else '((long)%s)' % iv
            if first:
                e = '(%s + %s)' % (e, sidx); first = False; continue
            r = s.resolve(cur)
            if r.k == 'struct':
                n = int(re.search(r'\)(\d+)UL\)', iv).group(1))
                e = '(&(%s)->f%d)' % (e, n); cur = r.els[n]
            elif r.k == 'arr':
                # pointer to array object -> pointer to element
                e = '(&(%s)->f0[%s])' % (e, sidx)
                cur = r.el
            else: raise SyntaxError('gep into ' + r.k)
        return '((%s)%s)' % (g.cty(rty), e)

def fname(n):
    return 'F_' + mangle(n)

ICMP = {'eq': ('==', 0), 'ne': ('!=', 0), 'ult': ('<', 0), 'ule': ('<=', 0), 'ugt': ('>', 0), 'uge': ('>=', 0),
        'slt': ('<', 1), 'sle': ('<=', 1), 'sgt': ('>', 1), 'sge': ('>=', 1)}
FCMP = {'oeq': '==', 'one': '!=', 'olt': '<', 'ole': '<=', 'ogt': '>', 'oge': '>=', 'une': '!=', 'ueq': '==',
        'ult': '<', 'ule': '<=', 'ugt': '>', 'uge': '>='}
BIN = {'add': '+', 'sub': '-', 'mul': '*', 'and': '&', 'or': '|', 'xor': '^', 'udiv': '/', 'urem': '%', 'shl': '<<', 'lshr': '>>'}
FLAGS = {'nsw', 'nuw', 'exact', 'inbounds', 'fast', 'nnan', 'ninf', 'nsz', 'arcp', 'contract', 'afn', 'reassoc', 'volatile',
         'atomic', 'tail', 'musttail', 'notail', 'unordered', 'monotonic', 'acquire', 'release', 'acq_rel', 'seq_cst'}

def FGm(fn):
    setattr(FG, fn.__name__, fn); return fn

@FGm
def mask(s, ty, e):
    b = s.g.rnd(ty.bits)
    if ty.bits == b or ty.bits == 1: return e
    return '((%s)((%s) & ((((%s)1) << %d) - 1)))' % (CINT[b], e, CINT[b], ty.bits)

@FGm
def sx(s, ty, e):
    """signed view of int value"""
    b = s.g.rnd(ty.bits)
    if ty.bits == 1: return '((signed char)-(signed char)(%s))' % e
    if ty.bits != b:
        sh = b - ty.bits
        return '((%s)((%s)(%s << %d)) >> %d)' % (SINT[b], SINT[b], e, sh, sh)
    return '((%s)%s)' % (SINT[b], e)

@FGm
def emit(s, x): s.out.append('  ' + x)

@FGm
def phi_moves(s, frm, to):
    """assignments for phis in block `to` when arriving from `frm`"""
    mv = []
    for ins in s.blocks[to]:
        if ' = phi ' not in ins: break
        dst, rest = ins.split(' = phi ', 1)
        p = P(tokenize(rest)); ty = p.type()
        while True:
            p.expect('['); val = s.value(p, ty); p.expect(','); lab = p.next(); p.expect(']')
            if lab == frm: mv.append((s.v(dst.strip()), val, ty)); break
            if not p.eat(','): raise SyntaxError('phi: no edge %s -> %s' % (frm, to))
    if len(mv) == 1: s.emit('%s = %s;' % (mv[0][0], mv[0][1]))
    elif mv:
        s.emit('{ ' + ' '.join('%s = %s;' % (s.g.decl(t, 'pt%d' % i), v) for i, (d, v, t) in enumerate(mv)) +
               ' ' + ' '.join('%s = pt%d;' % (d, i) for i, (d, v, t) in enumerate(mv)) + ' }')

@FGm
def jump(s, frm, to):
    s.phi_moves(frm, to); s.emit('goto %s;' % s.L(to))

@FGm
def retdummy(s):
    r = s.f.ret
    if r.k == 'void': return 'return;'
    if r.k in ('int', 'float', 'double', 'x86_fp80', 'ptr'): return 'return (%s)0;' % s.g.cty(r)
    return '{ %s z = {0}; return z; }' % s.g.cty(r)

@FGm
def gen(s):
    g = s.g; f = s.f
    s.blocks = dict(f.blocks)
    decls = {}
    body = []
    for bname, inss in f.blocks:
        s.emit('%s: ;' % s.L(bname))
        for ins in inss:
            s.cur = bname
            try: s.instr(ins, decls)
            except Exception as e:
                raise type(e)('%s\n  in %s: %s' % (e, f.name, ins[:200]))
    args = ', '.join(g.decl(t, s.v(n)) for t, n in f.args) or 'void'
    hdr = '%s %s(%s)' % (g.cty(f.ret), fname(f.name), args)
    dl = ['  %s;' % g.decl(t, n) for n, t in decls.items()]
    return hdr, hdr + ' {\n' + '\n'.join(dl) + '\n' + '\n'.join(s.out) + '\n}\n'

@FGm
def instr(s, ins, decls):
    g = s.g
    dst = None
    m = re.match(r'^(%[-\w.$]+|%"[^"]*") = (.*)$', ins)
    if m: dst, ins = m.group(1), m.group(2)
    p = P(tokenize(ins))
    while p.peek() in FLAGS: p.next()
    op = p.next()
    while p.peek() in FLAGS: p.next()
    def setd(ty, e):
        if ty.k == 'void': s.emit('%s;' % e); return
        decls[s.v(dst)] = ty
        s.emit('%s = %s;' % (s.v(dst), e))
    if op == 'phi': decls[s.v(dst)] = p.type(); return
    if op == 'alloca':
        ty = p.type()
        cnt = None
        if p.eat(','):
            if p.peek() != 'align': ct, cnt = s.tv(p)
        nm = 'al_' + mangle(dst)
        if cnt is None: decls[nm] = ty; s.emit('%s = &%s;' % (s.v(dst), nm)); s.allocas.add(s.v(dst))
        else: s.emit('%s = (%s*)malloc(sizeof(%s) * %s);' % (s.v(dst), g.cty(ty), g.cty(ty), cnt))
        decls[s.v(dst)] = Ty('ptr', to=ty); return
    if op == 'load':
        ty = p.type(); p.expect(','); pt, pv = s.tv(p)
        lv = s.split_access(pv, ty)
        if lv:   # an integer load that covers several scalar fields of a typed aggregate (a small struct copied as one iN): read the fields
            ct = g.cty(ty); g.stats['split_load'] += 1
            setd(ty, '(%s)' % ' | '.join('((%s)((%s)%s%s) << %d)' % (ct, ct, lval, ' & 1' if lt.bits == 1 else '', 8 * a) for a, sz, lval, lt in lv)); return
        setd(ty, '*(%s)' % pv); return
    if op == 'store':
        ty, v = s.tv(p); p.expect(','); pt, pv = s.tv(p)
        if OPTS['frame_stores']: s.emit('RT_FRAME_STORE(%s);' % pv)     # C16: while a frame is registered, no store may hit it
        lv = s.split_access(pv, ty)
        if lv:
            g.stats['split_store'] += 1
            s.emit('{ %s t_ = %s; %s }' % (g.cty(ty), v, ' '.join('%s = (%s)(t_ >> %d)%s;' % (lval, g.cty(lt), 8 * a, ' & 1' if lt.bits == 1 else '') for a, sz, lval, lt in lv))); return
        s.emit('*(%s) = %s;' % (pv, v)); return
    if op == 'getelementptr':
        bt = p.type(); p.expect(','); pt, base = s.tv(p); idx = []
        while p.eat(','):
            if p.peek() == 'align': break
            idx.append(s.tv(p))
        # result type
        cur = bt
        for k, (it, iv) in enumerate(idx):
            if k == 0: continue
            r = s.resolve(cur)
            cur = r.els[int(re.search(r'\)(\d+)UL\)', iv).group(1))] if r.k == 'struct' else r.el
        rty = Ty('ptr', to=cur)
        if bt.k == 'int' and bt.bits == 8 and len(idx) == 1:
            mo = re.fullmatch(r'\(\(unsigned long\)(\d+)UL\)', idx[0][1])
            if mo: s.defs[s.v(dst)] = ('gep8', base, int(mo.group(1)))
        elif bt.k not in ('func', 'void') and all(constval(iv) is not None for _, iv in idx[1:]):
            off = 0; cur2 = bt
            for k, (it, iv) in enumerate(idx):
                if k == 0: continue
                r = s.resolve(cur2); n = constval(iv)
                if r.k == 'struct':
                    o = 0
                    for j, e in enumerate(r.els):
                        sz, al = g.size_align(e)
                        if r.packed: al = 1
                        o = (o + al - 1) // al * al
                        if j == n: break
                        o += sz
                    off += o; cur2 = r.els[n]
                else:
                    off += n * g.size_align(r.el)[0]; cur2 = r.el
            if constval(idx[0][1]) == 0: s.defs[s.v(dst)] = ('gepc', base, bt, off)
            else:
                it0, iv0 = idx[0]
                sidx = '((long)(%s)%s)' % (SINT[g.rnd(it0.bits)], iv0) if it0.bits < 64 else '((long)%s)' % iv0
                s.defs[s.v(dst)] = ('gepv', '(%s + %s)' % (base, sidx), bt, off)
        setd(rty, s.gep(bt, base, idx, rty)); return
    if op in BIN or op in ('sdiv', 'srem', 'ashr'):
        ty, a = s.tv(p); p.expect(','); b = s.value(p, ty)
        ct = g.cty(ty)
        if op == 'sub' and not os.environ.get('LL2C_NO_PTRDIFF') and a in s.defs and b in s.defs and s.defs[a][0] == 'ptrtoint' and s.defs[b][0] == 'ptrtoint':
            # difference of two pointers: keep it a pointer difference (object/offset model), not integer addresses
            setd(ty, '((%s)RT_PTRDIFF(%s, %s))' % (ct, s.defs[a][1], s.defs[b][1])); return
        B = OPTS['narrow']
        if B and ty.bits >= 64 and op in ('mul', 'sdiv', 'srem', 'udiv', 'urem') and constval(a) is None and constval128(a) is None and constval(b) is None and constval128(b) is None:
            # checked narrowing: assert both operands are B-bit signed values, then compute on 2B bits (exact, no wrap)
            nb = {16: 'int', 32: 'long', 8: 'short'}[B]
            g.stats['narrowed_' + op] += 1
            s.emit('RT_ASSERT(RT_SFITS%d(%s, %d) && RT_SFITS%d(%s, %d), "NARROW: operands of a %d-bit %s fit %d signed bits");' % (g.rnd(ty.bits), a, B, g.rnd(ty.bits), b, B, ty.bits, op, B))
            if op in ('udiv', 'urem'):
                s.emit('RT_ASSERT(!RT_SNEG%d(%s) && !RT_SNEG%d(%s), "NARROW: operands of an unsigned %s are non-negative as signed values");' % (g.rnd(ty.bits), a, g.rnd(ty.bits), b, op))
            cop = {'mul': '*', 'sdiv': '/', 'udiv': '/', 'srem': '%', 'urem': '%'}[op]
            if op != 'mul': s.emit('RT_ASSERT(%s != 0, "division by zero");' % b)
            e = '((%s)(%s)((%s)(%s)%s %s (%s)(%s)%s))' % (ct, SINT[g.rnd(ty.bits)], nb, SINT[g.rnd(ty.bits)], a, cop, nb, SINT[g.rnd(ty.bits)], b)
            setd(ty, s.mask(ty, e)); return
        if op in ('sdiv', 'srem'):
            e = '((%s)(%s %s %s))' % (ct, s.sx(ty, a), '/' if op == 'sdiv' else '%', s.sx(ty, b))
        elif op == 'ashr': e = '((%s)(%s >> %s))' % (ct, s.sx(ty, a), b)
        elif op in ('shl', 'lshr'): e = '((%s)(%s %s %s))' % (ct, a, BIN[op], b)
        else: e = '((%s)(%s %s %s))' % (ct, a, BIN[op], b)
        if ty.bits == 1 and op in ('add', 'sub'): e = '((_Bool)((%s ^ %s) & 1))' % (a, b)
        setd(ty, s.mask(ty, e)); return
    if op in ('fadd', 'fsub', 'fmul', 'fdiv'):
        ty, a = s.tv(p); p.expect(','); b = s.value(p, ty)
        setd(ty, '(%s %s %s)' % (a, {'fadd': '+', 'fsub': '-', 'fmul': '*', 'fdiv': '/'}[op], b)); return
    if op == 'fneg':
        ty, a = s.tv(p); setd(ty, '(-%s)' % a); return
    if op == 'icmp':
        pred = p.next(); ty, a = s.tv(p); p.expect(','); b = s.value(p, ty)
        cop, sg = ICMP[pred]
        if ty.k == 'ptr' and os.environ.get('LL2C_NO_PTRCMP'): a, b = '((unsigned long)%s)' % a, '((unsigned long)%s)' % b; sg = 0
        elif ty.k == 'ptr':
            if cop in ('==', '!='): setd(Ty('int', bits=1), '((char*)%s %s (char*)%s)' % (a, cop, b))
            else: setd(Ty('int', bits=1), 'RT_PTRREL(%s, %s, %s, %d)' % (a, cop, b, 1 if '=' in cop else 0))
            return
        if sg: a, b = s.sx(ty, a), s.sx(ty, b)
        setd(Ty('int', bits=1), '(%s %s %s)' % (a, cop, b)); return
    if op == 'fcmp':
        pred = p.next(); ty, a = s.tv(p); p.expect(','); b = s.value(p, ty)
        if pred == 'ord': e = '(%s == %s && %s == %s)' % (a, a, b, b)
        elif pred == 'uno': e = '(%s != %s || %s != %s)' % (a, a, b, b)
        elif pred[0] == 'u' and pred != 'une': e = '(!(%s == %s && %s == %s) || %s %s %s)' % (a, a, b, b, a, FCMP[pred], b)
        elif pred == 'one': e = '(%s == %s && %s == %s && %s != %s)' % (a, a, b, b, a, b)
        else: e = '(%s %s %s)' % (a, FCMP[pred], b)
        setd(Ty('int', bits=1), e); return
    if op in ('zext', 'sext', 'trunc', 'bitcast', 'ptrtoint', 'inttoptr', 'sitofp', 'uitofp', 'fptoui', 'fptosi', 'fpext', 'fptrunc'):
        st, v = s.tv(p); p.expect('to'); dt = p.type()
        ct = g.cty(dt)
        if op == 'ptrtoint' and dst: s.defs[s.v(dst)] = ('ptrtoint', v)
        if op == 'bitcast' and dst and st.k == 'ptr' and dt.k == 'ptr': s.defs[s.v(dst)] = ('bitcast', v, st.to)
        if op == 'zext': e = '((%s)%s)' % (ct, v)
        elif op == 'sext': e = s.mask(dt, '((%s)%s)' % (ct, s.sx(st, v)))
        elif op == 'trunc': e = s.mask(dt, '((%s)%s)' % (ct, v)) if dt.bits != 1 else '((_Bool)(%s & 1))' % v
        elif op in ('sitofp', 'uitofp') and OPTS['narrow'] and st.bits >= 128 and constval(v) is None:   # 64-bit key differences are legitimately wide
            B = OPTS['narrow']; nb = {16: 'int', 32: 'long', 8: 'short'}[B]
            g.stats['narrowed_' + op] += 1
            s.emit('RT_ASSERT(RT_SFITS%d(%s, %d)%s, "NARROW: operand of a %d-bit %s fits %d signed bits");' % (g.rnd(st.bits), v, B, '' if op == 'sitofp' else ' && !RT_SNEG%d(%s)' % (g.rnd(st.bits), v), st.bits, op, B))
            e = '((%s)(%s)(%s)%s)' % (ct, nb, SINT[g.rnd(st.bits)], v)
        elif op == 'sitofp': e = '((%s)%s)' % (ct, s.sx(st, v))
        elif op == 'fptosi':
            s.emit('RT_ASSERT(%s > -0x1p%d - 1 && %s < 0x1p%d, "fptosi operand inside the range of the target type (else poison/UB)");' % (v, dt.bits - 1, v, dt.bits - 1))
            e = s.mask(dt, '((%s)(%s)%s)' % (ct, SINT[g.rnd(dt.bits)], v))
        elif op == 'fptoui':
            s.emit('RT_ASSERT(%s > -1 && %s < 0x1p%d, "fptoui operand inside the range of the target type (else poison/UB)");' % (v, v, dt.bits))
            e = s.mask(dt, '((%s)%s)' % (ct, v))
        elif op == 'bitcast' and st.k != 'ptr': e = 'BITCAST(%s, %s, %s)' % (ct, g.cty(st), v)
        else: e = '((%s)%s)' % (ct, v)
        setd(dt, e); return
    if op == 'select':
        ct_, c = s.tv(p); p.expect(','); ty, a = s.tv(p); p.expect(','); ty2, b = s.tv(p)
        setd(ty, '(%s ? %s : %s)' % (c, a, b)); return
    if op == 'br':
        if p.peek() == 'label': p.next(); s.jump(s.cur, p.next()); return
        ct_, c = s.tv(p); p.expect(','); p.expect('label'); a = p.next(); p.expect(','); p.expect('label'); b = p.next()
        s.emit('if (%s) {' % c); s.jump(s.cur, a); s.emit('} else {'); s.jump(s.cur, b); s.emit('}'); return
    if op == 'switch':
        ty, v = s.tv(p); p.expect(','); p.expect('label'); dflt = p.next(); p.expect('[')
        while p.peek() != ']':
            ct_, cv = s.tv(p); p.expect(','); p.expect('label'); lab = p.next()
            s.emit('if (%s == %s) {' % (v, cv)); s.jump(s.cur, lab); s.emit('}')
        s.jump(s.cur, dflt); return
    if op == 'ret':
        ty = p.type()
        if ty.k == 'void': s.emit('return;')
        else: s.emit('return %s;' % s.value(p, ty))
        return
    if op == 'unreachable': s.emit('RT_UNREACHABLE();'); s.emit(s.retdummy()); return
    if op == 'extractvalue':
        ty, v = s.tv(p); idx = []
        while p.eat(','): idx.append(int(p.next()))
        cur = ty; e = v
        for i in idx:
            r = s.resolve(cur)
            if r.k == 'struct': e = '%s.f%d' % (e, i); cur = r.els[i]
            else: e = '%s.f0[%d]' % (e, i); cur = r.el
        setd(cur, e); return
    if op == 'insertvalue':
        ty, v = s.tv(p); p.expect(','); et, ev = s.tv(p); idx = []
        while p.eat(','): idx.append(int(p.next()))
        decls[s.v(dst)] = ty; s.emit('%s = %s;' % (s.v(dst), v))
        e = s.v(dst); cur = ty
        for i in idx:
            r = s.resolve(cur)
            if r.k == 'struct': e = '%s.f%d' % (e, i); cur = r.els[i]
            else: e = '%s.f0[%d]' % (e, i); cur = r.el
        s.emit('%s = %s;' % (e, ev)); return
    if op == 'landingpad':
        ty = p.type(); decls[s.v(dst)] = ty
        s.emit('%s.f0 = (unsigned char*)rt_exc_obj; %s.f1 = (unsigned int)rt_exc_sel(%s); rt_exc_pending = 0; /* parked while cleanups run */' % (s.v(dst), s.v(dst), s.lp_clauses(p)))
        return
    if op == 'resume':
        s.emit('rt_exc_pending = 1; /* resume: re-raise the parked exception */'); s.emit(s.retdummy()); return
    if op in ('call', 'invoke'):
        if '@llvm.experimental.noalias.scope.decl' in ins or '@llvm.dbg.' in ins: return
        s.call(op, p, dst, decls); return
    if op == 'fence': return
    raise SyntaxError('unhandled op ' + op)

@FGm
def lp_clauses(s, p):
    """returns C args describing catch clauses: count, typeinfo ids..."""
    ids = []; cleanup = 0
    while not p.done():
        t = p.next()
        if t == 'cleanup': cleanup = 1
        elif t == 'catch':
            ty = p.type(); tk = p.next()
            if tk == 'null': ids.append('RT_TI_ALL')
            else:
                if tk == 'bitcast': p.expect('('); p.type(); tk = p.next(); p.expect('to'); p.type(); p.expect(')')
                ids.append('RT_TI_' + mangle(tk))
        elif t == 'filter': raise SyntaxError('filter clause')
    return '%d, %d%s' % (cleanup, len(ids), ''.join(', ' + i for i in ids))

@FGm
def call(s, op, p, dst, decls):
    g = s.g
    skip_attrs(p)
    while p.peek() in LINK: p.next()
    rty = p.type()
    if rty.k == 'func': fty = rty; rty = fty.ret
    skip_attrs(p)
    callee = p.next()
    if callee in ('bitcast',):
        raise SyntaxError('call through constexpr')
    p.expect('(')
    args = []
    while p.peek() != ')':
        if p.peek() == 'metadata': raise SyntaxError('metadata arg')
        args.append(s.tv(p)); p.eat(',')
    p.next()
    normal = unwind = None; nounwind = False
    while not p.done():
        t = p.next()
        if t == 'to': p.expect('label'); normal = p.next()
        elif t == 'unwind': p.expect('label'); unwind = p.next()
        elif t == '#' and p.peek() in s.m.nounwind_groups: nounwind = True
        elif t == 'nounwind': nounwind = True
    if callee in s.m.fattr:
        grp, kw = s.m.fattr[callee]
        if kw or any(x in s.m.nounwind_groups for x in grp): nounwind = True
    av = [v for _, v in args]
    if callee[0] == '@':
        nm = callee[1:]
        if nm.startswith('llvm.'):
            e = s.intrinsic(nm, rty, args)
            if e is None: return
        else:
            g.called.add(callee)
            e = '%s(%s)' % (fname(callee), ', '.join(av))
    else:
        e = '%s(%s)' % (s.v(callee), ', '.join(av))
    if rty.k == 'void' or dst is None: s.emit('%s;' % e)
    else: decls[s.v(dst)] = rty; s.emit('%s = %s;' % (s.v(dst), e))
    if callee[0] == '@' and callee[1:].startswith('llvm.'): 
        if op == 'invoke': s.jump(s.cur, normal)
        return
    if op == 'invoke':
        s.emit('if (rt_exc_pending) {'); s.jump(s.cur, unwind); s.emit('}'); s.jump(s.cur, normal)
    elif not nounwind:
        s.emit('if (rt_exc_pending) %s' % s.retdummy())

@FGm
def intrinsic(s, nm, rty, args):
    g = s.g; av = [v for _, v in args]
    if nm.startswith(('llvm.lifetime.', 'llvm.dbg.', 'llvm.experimental.noalias', 'llvm.invariant.', 'llvm.prefetch.')): return None
    if OPTS['frame_stores'] and nm.startswith(('llvm.memcpy.', 'llvm.memmove.', 'llvm.memset.')): s.emit('RT_FRAME_STORE(%s);' % av[0])
    if nm.startswith(('llvm.memcpy.', 'llvm.memmove.')):
        e = s.typed_memcpy(av[0], av[1], av[2], nm.startswith('llvm.memmove.'))
        if e is not None: s.emit(e); return None
        g.stats['mem_bytewise'] += 1
        return '%s(%s, %s, %s)' % ('rt_memmove' if nm.startswith('llvm.memmove.') else 'rt_memcpy', av[0], av[1], av[2])
    if nm.startswith('llvm.memset.'):
        e = s.typed_memset(av[0], av[1], av[2])
        if e is not None: s.emit(e); return None
        g.stats['mem_bytewise'] += 1
        return 'rt_memset(%s, %s, %s)' % (av[0], av[1], av[2])
    if nm == 'llvm.assume': return 'RT_LLVM_ASSUME(%s)' % av[0]
    if nm == 'llvm.eh.typeid.for':
        return '((unsigned int)RT_TI_%s)' % re.search(r'&g_(\w+)\)', av[0]).group(1)
    if nm == 'llvm.trap': return 'RT_TRAP()'
    b = args[0][0].bits if args and args[0][0].k == 'int' else 0
    ct = g.cty(rty) if rty.k != 'struct' else None
    if nm.startswith('llvm.abs.'): return '((%s)(%s < 0 ? -%s : %s))' % (ct, s.sx(args[0][0], av[0]), s.sx(args[0][0], av[0]), s.sx(args[0][0], av[0]))
    if nm.startswith('llvm.umax.'): return '(%s > %s ? %s : %s)' % (av[0], av[1], av[0], av[1])
    if nm.startswith('llvm.umin.'): return '(%s < %s ? %s : %s)' % (av[0], av[1], av[0], av[1])
    if nm.startswith('llvm.smax.'): return '(%s > %s ? %s : %s)' % (s.sx(args[0][0], av[0]), s.sx(args[0][0], av[1]), av[0], av[1])
    if nm.startswith('llvm.smin.'): return '(%s < %s ? %s : %s)' % (s.sx(args[0][0], av[0]), s.sx(args[0][0], av[1]), av[0], av[1])
    if nm.startswith('llvm.uadd.sat.'): return '((%s)(%s + %s) < %s ? (%s)-1 : (%s)(%s + %s))' % (ct, av[0], av[1], av[0], ct, ct, av[0], av[1])
    if nm.startswith('llvm.usub.sat.'): return '(%s > %s ? (%s)(%s - %s) : (%s)0)' % (av[0], av[1], ct, av[0], av[1], ct)
    if nm.startswith('llvm.ctlz.'): return 'rt_ctlz%d(%s)' % (b, av[0])
    if nm.startswith('llvm.cttz.'): return 'rt_cttz%d(%s)' % (b, av[0])
    if nm.startswith('llvm.ctpop.'): return 'rt_ctpop%d(%s)' % (b, av[0])
    if nm.startswith('llvm.bswap.'): return 'rt_bswap%d(%s)' % (b, av[0])
    if nm.startswith('llvm.fshl.'): return 'rt_fshl%d(%s, %s, %s)' % (b, av[0], av[1], av[2])
    if nm.startswith('llvm.fshr.'): return 'rt_fshr%d(%s, %s, %s)' % (b, av[0], av[1], av[2])
    if nm.startswith('llvm.x86.bmi.pdep.'): return 'rt_pdep%d(%s, %s)' % (b, av[0], av[1])
    if nm.startswith('llvm.x86.bmi.pext.'): return 'rt_pext%d(%s, %s)' % (b, av[0], av[1])
    mo = re.match(r'llvm\.(u|s)(add|sub|mul)\.with\.overflow\.i(\d+)', nm)
    if mo:
        sg, opn, nb = mo.group(1), mo.group(2), int(mo.group(3))
        if nb > 64: raise SyntaxError('overflow intrinsic wider than 64 bits')
        st = g.cty(rty); T = CINT[g.rnd(nb)]; cop = {'add': '+', 'sub': '-', 'mul': '*'}[opn]
        if sg == 'u':
            return '({ %s r_; unsigned __int128 x_ = (unsigned __int128)(%s), y_ = (unsigned __int128)(%s); __int128 w_ = (__int128)x_ %s (__int128)y_; r_.f0 = (%s)w_; r_.f1 = (w_ < 0) || ((unsigned __int128)w_ >> %d) != 0; r_; })' % (st, av[0], av[1], cop, T, nb)
        a_, b_ = s.sx(args[0][0], av[0]), s.sx(args[1][0], av[1])
        return '({ %s r_; __int128 w_ = (__int128)(%s) %s (__int128)(%s); r_.f0 = (%s)w_; r_.f1 = w_ < -((__int128)1 << %d) || w_ >= ((__int128)1 << %d); r_; })' % (st, a_, cop, b_, T, nb - 1, nb - 1)
    if nm.startswith('llvm.fmuladd.'): return '((%s * %s) + %s)' % (av[0], av[1], av[2])   # unfused: x87 / SSE2 baseline has no FMA
    mo = re.match(r'llvm\.(floor|ceil|round|trunc|fabs|sqrt|rint|nearbyint)\.(f32|f64|f80)', nm)
    if mo: return 'rt_%s_%s(%s)' % (mo.group(1), mo.group(2), av[0])
    raise SyntaxError('intrinsic ' + nm)


def constval128(e):
    mo = re.fullmatch(r'\(\(\(\(unsigned __int128\)(\d+)UL\)<<64\)\|(\d+)UL\)', e)
    return (int(mo.group(1)) << 64) | int(mo.group(2)) if mo else None

def constval(e):
    mo = re.fullmatch(r'\(\(unsigned (?:long|int|char|short)\)(\d+)UL\)', e)
    return int(mo.group(1)) if mo else None

@FGm
def origin(s, v):
    """typed origin of an i8* value: (C expr of a typed pointer, pointee IR type, byte offset) or None"""
    off = 0; best = None
    for _ in range(12):
        d = s.defs.get(v)
        if d is None: break
        if d[0] == 'gep8': v = d[1]; off += d[2]; continue
        if d[0] == 'bitcast':
            if not (d[2].k == 'int' and d[2].bits == 8) and d[2].k not in ('func', 'void'): best = (d[1], d[2], off)
            v = d[1]; continue
        if d[0] == 'gepc':
            off += d[3]; best = (d[1], d[2], off); v = d[1]; continue
        if d[0] == 'gepv':
            off += d[3]; best = (d[1], d[2], off); break
        break
    return best

@FGm
def split_access(s, pv, ty):
    """scalar leaves of the typed aggregate an iN load/store really touches, when it spans more than one of them"""
    if os.environ.get('LL2C_NO_SPLIT') or ty.k != 'int' or ty.bits < 16 or ty.bits % 8 or ty.bits > 64: return None
    org = s.origin(pv)
    if org is None: return None
    if s.resolve(org[1]).k not in ('struct', 'arr'): return None
    lv = s.region_leaves(org, ty.bits // 8)
    if not lv or len(lv) < 2 or any(lt.k != 'int' for _, _, _, lt in lv): return None
    return lv

@FGm
def region_leaves(s, org, length):
    """leaves (reloff, size, lvalue, type) covering exactly [off, off+length) of the object(s) org points to, or None"""
    base, ty, off = org
    esz, _ = s.g.size_align(ty)
    if esz == 0: return None
    nel = (off + length + esz - 1) // esz
    if nel > 64: return None
    el = s.g.leaves(ty)
    out = []
    for i in range(nel):
        for (lo, sz, path, lt) in el:
            a = i * esz + lo
            if a + sz <= off or a >= off + length: continue
            if a < off or a + sz > off + length: return None      # partial scalar
            out.append((a - off, sz, '(%s)[%d]%s' % (base, i, path), lt))
    return out

def leafkind(t):
    return t.k if t.k != 'int' else 'i%d' % t.bits

@FGm
def typed_memset(s, d, val, n):
    if os.environ.get('LL2C_NO_TYPEDMEM') or os.environ.get('LL2C_NO_TYPEDSET'): return None
    nexpr = n
    n = constval(n); val = constval(val)
    org = s.origin(d)
    if n is None and val is not None and org is not None and org[0] in s.allocas and s.resolve(org[1]).k == 'arr' and not os.environ.get('LL2C_NO_VARSET'):
        # variable length over a small typed object of uniform scalars (a loop clang turned into memset): guarded scalar stores, no bytes
        tot = s.g.size_align(org[1])[0] - org[2]
        lv = s.region_leaves(org, tot) if 0 < tot <= 512 else None
        if lv and len({sz for _, sz, _, _ in lv}) == 1 and all(a == i * lv[0][1] for i, (a, _, _, _) in enumerate(lv)) and all(lt.k == 'int' or val == 0 for _, _, _, lt in lv):
            sz = lv[0][1]
            def cv(lt): return '(%s)%dUL' % (s.g.cty(lt), int.from_bytes(bytes([val]) * sz, 'little') & ((1 << lt.bits) - 1)) if lt.k == 'int' else '(%s)0' % s.g.cty(lt)
            s.g.stats['mem_typed_varset'] += 1
            return '{ unsigned long n_ = %s; RT_ASSERT(n_ <= %dUL && n_ %% %dUL == 0, "memset length stays within the typed object and is a multiple of its scalar size"); %s }' % (
                nexpr, tot, sz, ' '.join('if (n_ >= %dUL) %s = %s;' % (a + sz, lval, cv(lt)) for a, _, lval, lt in lv))
    if n is None or val is None or org is None: return None
    lv = s.region_leaves(org, n)
    if lv is None: return None
    covered = sum(sz for _, sz, _, _ in lv)
    out = []
    for (_, sz, lval, lt) in lv:
        if lt.k == 'int': out.append('%s = (%s)%dUL;' % (lval, s.g.cty(lt), int.from_bytes(bytes([val]) * sz, 'little') & ((1 << lt.bits) - 1) if lt.bits > 1 else (val & 1)))
        elif val == 0: out.append('%s = (%s)0;' % (lval, s.g.cty(lt)))
        else: return None
    s.g.stats['mem_typed'] += 1
    return '{ /* memset %d bytes (%d in scalars) */ %s }' % (n, covered, ' '.join(out))

@FGm
def typed_memcpy(s, d, src, n, move):
    g = s.g
    if os.environ.get('LL2C_NO_TYPEDMEM') or os.environ.get('LL2C_NO_TYPEDCPY'): return None
    od = s.origin(d); os_ = s.origin(src)
    if od is None and os_ is None: return None
    nc = constval(n)
    if nc is not None:
        ld = s.region_leaves(od, nc) if od else None; ls = s.region_leaves(os_, nc) if os_ else None
        # one side of unknown structure: access it through the other side's scalar leaves at the same byte offsets
        # (byte-exact except for padding bytes, which carry no value)
        if ld is None and ls is not None: ld = [(a, sz, '(*(%s*)((char*)(%s) + %d))' % (g.cty(t), d, a), t) for a, sz, _, t in ls]
        if ls is None and ld is not None: ls = [(a, sz, '(*(%s*)((char*)(%s) + %d))' % (g.cty(t), src, a), t) for a, sz, _, t in ld]
        if ld is None or ls is None or len(ld) != len(ls): return None
        out = []
        for (a, sa, la, ta), (b, sb, lb, tb) in zip(ld, ls):
            if a != b or sa != sb or leafkind(ta) != leafkind(tb): return None
            out.append('t%d_ = %s;' % (len(out), lb) if move else '%s = %s;' % (la, ('(%s)' % g.cty(ta) if ta.k == 'ptr' else '') + lb))
        if move:   # read everything first
            decl = ' '.join('%s = %s;' % (g.decl(ta, 't%d_' % i), ('(%s)' % g.cty(ta) if ta.k == 'ptr' else '') + lb) for i, ((a, sa, la, ta), (b, sb, lb, tb)) in enumerate(zip(ld, ls)))
            out = [decl] + ['%s = t%d_;' % (la, i) for i, (a, sa, la, ta) in enumerate(ld)]
        g.stats['mem_typed'] += 1
        return '{ /* mem%s %d bytes */ %s }' % ('move' if move else 'cpy', nc, ' '.join(out))
    if os.environ.get('LL2C_NO_TYPEDLOOP'): return None
    if od is None or os_ is None: return None
    # variable length: element-wise loop when both sides are arrays of layout-identical elements
    if od[2] != 0 or os_[2] != 0: return None
    sd, _ = g.size_align(od[1]); ss, _ = g.size_align(os_[1])
    if sd != ss or sd == 0: return None
    ld = g.leaves(od[1]); ls = g.leaves(os_[1])
    if len(ld) != len(ls) or any(a[0] != b[0] or a[1] != b[1] or leafkind(a[3]) != leafkind(b[3]) for a, b in zip(ld, ls)): return None
    same = g.cty(od[1]) == g.cty(os_[1])
    def body(i):
        if same: return '(%s)[%s] = (%s)[%s];' % (od[0], i, os_[0], i)
        return ' '.join('(%s)[%s]%s = %s(%s)[%s]%s;' % (od[0], i, a[2], ('(%s)' % g.cty(a[3]) if a[3].k == 'ptr' else ''), os_[0], i, b[2]) for a, b in zip(ld, ls))
    g.stats['mem_typed_loop'] += 1
    fw = 'for (unsigned long i_ = 0; i_ < n_; i_++) { %s }' % body('i_')
    bw = 'for (unsigned long i_ = n_; i_ > 0; i_--) { %s }' % body('i_ - 1')
    chk = 'RT_ASSERT((%s) %% %dUL == 0, "mem%s length is a multiple of the element size");' % (n, sd, 'move' if move else 'cpy')
    if move:
        return '{ unsigned long n_ = (%s) / %dUL; %s if ((unsigned long)(char*)(%s) <= (unsigned long)(char*)(%s)) { %s } else { %s } }' % (n, sd, chk, od[0], os_[0], fw, bw)
    return '{ unsigned long n_ = (%s) / %dUL; %s %s }' % (n, sd, chk, fw)

# ---------------------------------------------------------------- module driver
def cstring_bytes(tok):
    s = tok[2:-1]; out = []; i = 0
    while i < len(s):
        if s[i] == '\\':
            if s[i + 1] == '\\': out.append(92); i += 2
            else: out.append(int(s[i + 1:i + 3], 16)); i += 3
        else: out.append(ord(s[i])); i += 1
    return out

def const_init(fg, p, ty):
    """C initializer for a constant of type ty"""
    g = fg.g
    r = fg.resolve(ty)
    t = p.peek()
    if t in ('zeroinitializer', 'undef', 'poison'):
        p.next(); return '{0}' if r.k in ('struct', 'arr') else '0'
    if r.k == 'arr':
        if t.startswith('c"'):
            p.next(); return '{{%s}}' % ', '.join(map(str, cstring_bytes(t)))
        p.expect('['); els = []
        while p.peek() != ']':
            et = p.type(); els.append(const_init(fg, p, et)); p.eat(',')
        p.next(); return '{{%s}}' % ', '.join(els)
    if r.k == 'struct':
        close = '}' if p.next() == '{' else '}>'; els = []
        while p.peek() != close:
            et = p.type(); els.append(const_init(fg, p, et)); p.eat(',')
        p.next(); return '{%s}' % ', '.join(els)
    return fg.value(p, ty)

def translate(m, roots):
    g = Gen(m); g.used_globals = set(); g.called = set()
    import collections; g.stats = collections.Counter()
    # reachable functions from roots
    todo = list(roots); seen = set(); bodies = []; protos = []
    while todo:
        fn = todo.pop()
        if fn in seen: continue
        seen.add(fn)
        if fn not in m.funcs: continue
        before = set(g.called)
        if re.match(r'@_ZNSt7__cxx119to_stringE|@_ZStplIcSt11char_traitsIcESaIcEENSt7__cxx1112basic_string', fn) and m.funcs[fn].ret.k == 'void' \
                and m.funcs[fn].args and m.funcs[fn].args[0][0].k == 'ptr':
            # libstdc++ message formatting (std::to_string, operator+ on std::string): result = valid empty string.
            # Message text is not part of any property; this keeps the exception paths short.
            f = m.funcs[fn]
            hdr = 'void %s(%s)' % (fname(fn), ', '.join(g.decl(t, 'a%d' % i) for i, (t, _) in enumerate(f.args)))
            body = hdr + ' { struct rt_string *s_ = (struct rt_string*)a0; s_->p = s_->u.buf; s_->len = 0; s_->u.buf[0] = 0; }\n'
            protos.append(hdr + ';'); bodies.append(body); g.stats['stubbed_string_formatting'] += 1; continue
        if any(re.search(rx, fn) for rx in OPTS['noop']) and m.funcs[fn].ret.k == 'void':
            f = m.funcs[fn]
            hdr = 'void %s(%s)' % (fname(fn), ', '.join(g.decl(t, 'a%d' % i) for i, (t, _) in enumerate(f.args)) or 'void')
            protos.append(hdr + ';'); bodies.append(hdr + ' { }\n'); g.stats['stubbed_noop'] += 1; continue
        if 'verif_new_array' in fn:
            f = m.funcs[fn]; et = g.cty(f.ret.to)
            hdr = '%s %s(unsigned long v_n)' % (g.cty(f.ret), fname(fn))
            body = hdr + ' { %s *p_ = malloc(sizeof(%s) * v_n); RT_ASSUME(p_ != 0); RT_FRAME_NOTE_ALLOC(p_); return p_; }\n' % (et, et)
            protos.append(hdr + ';'); bodies.append(body); continue
        hdr, body = FG(g, m.funcs[fn]).gen()
        protos.append(hdr + ';'); bodies.append(body)
        for c in sorted(g.called - before): todo.append(c)
        # functions referenced as values
        for c in sorted(g.used_globals):
            if c in m.funcs and c not in seen: todo.append(c)
    # static initialisers (llvm.global_ctors), in order; iostream's ios_base::Init registration is skipped (no stream is used)
    def drain(todo):
        while todo:
            fn = todo.pop()
            if fn in seen or fn not in m.funcs: continue
            seen.add(fn); before = set(g.called)
            if any(re.search(rx, fn) for rx in OPTS['unreachable_def']):
                # virtual member functions reachable only through a vtable slot that no encoded path calls (serialisation, I/O)
                f = m.funcs[fn]; rt_ = g.cty(f.ret)
                hdr = '%s %s(%s)' % (rt_, fname(fn), ', '.join(g.decl(t, 'a%d' % i) for i, (t, _) in enumerate(f.args)) or 'void')
                protos.append(hdr + ';')
                bodies.append(hdr + ' { RT_ASSERT(0, "BOUND: function stubbed as unreachable was reached"); RT_ASSUME(0); %s }\n' % ('' if rt_ == 'void' else ('return (%s)0;' % rt_ if f.ret.k in ('int', 'ptr', 'float', 'double') else '{ %s z_ = {0}; return z_; }' % rt_)))
                g.stats['stubbed_unreachable_def'] += 1
                continue
            hdr, body = FG(g, m.funcs[fn]).gen()
            protos.append(hdr + ';'); bodies.append(body)
            for c in sorted(g.called - before): todo.append(c)
            for c in sorted(g.used_globals):
                if c in m.funcs and c not in seen: todo.append(c)
    ctors = []
    for ln in m.gorder:
        if ln.startswith('@llvm.global_ctors'):
            for fn in re.findall(r'void \(\)\* (@[-\w.$]+)', ln):
                body = ' '.join(i for _, b in m.funcs[fn].blocks for i in b) if fn in m.funcs else 'ios_base4Init'
                if 'ios_base4Init' in body: continue
                if '3pgm' not in body: g.stats['global_ctors_skipped_not_pgm'] += 1; continue   # sdsl / cereal statics: not on any encoded path
                ctors.append(fn)
    todo = list(ctors)
    while todo:
        fn = todo.pop()
        if fn in seen or fn not in m.funcs: continue
        seen.add(fn); before = set(g.called)
        hdr, body = FG(g, m.funcs[fn]).gen()
        protos.append(hdr + ';'); bodies.append(body)
        for c in sorted(g.called - before): todo.append(c)
    protos.append('void rt_global_ctors(void);')
    bodies.append('void rt_global_ctors(void) { %s }\n' % ' '.join('%s();' % fname(c) for c in ctors))
    g.stats['global_ctors'] = len(ctors)
    # globals (iterate: initializers may reference more globals)
    gdefs = {}; gl = {}
    for ln in m.gorder:
        mm = re.match(r'^(@[-\w.$]+|@"[^"]*") = (.*)$', ln)
        if mm: gl[mm.group(1)] = mm.group(2)
    fg0 = FG(g, None)
    done = set()
    while True:
        pend = sorted(x for x in g.used_globals if x not in done and x in gl)
        if not pend: break
        for name in pend:
            done.add(name)
            rest = re.sub(r'(, (align \d+|comdat(\([^)]*\))?|section "[^"]*"|!\w+ !\d+))+\s*$', '', gl[name])
            p = P(tokenize(rest))
            external = False
            while p.peek() in LINK or p.peek() in ('global', 'constant'):
                t = p.next()
                if t == 'external': external = True
                if t in ('global', 'constant'): break
            ty = p.type()
            cn = 'g_' + mangle(name)
            if name.startswith(('@_ZTI', '@_ZTS')) and not (external or p.done()):
                gdefs[name] = '%s; /* RTTI object of a user class: identity only (no typeid / dynamic_cast on encoded paths) */' % g.decl(ty, cn)
            elif (external or p.done()) and name.startswith('@_ZTV'): gdefs[name] = '%s; /* vtable of a libstdc++ class: address identity only */' % g.decl(ty, cn)
            elif external or p.done(): gdefs[name] = 'extern %s;' % g.decl(ty, cn)
            else: gdefs[name] = '%s = %s;' % (g.decl(ty, cn), const_init(fg0, p, ty))
        drain([c for c in sorted(g.used_globals) if c in m.funcs and c not in seen])   # functions referenced only from initialisers (vtables)
    ext = sorted(c for c in (g.called | g.used_globals) if c in m.decls and c not in m.funcs)
    EXC = r'@_ZNSt(9exception|11logic_error|16invalid_argument|12length_error|12out_of_range|13runtime_error|14overflow_error|11range_error|12domain_error|15underflow_error)[CD][12]E'
    for c in ext:
        ret, args, va = m.decls[c]
        a = ', '.join('%s a%d' % (g.cty(t), i) for i, t in enumerate(args)) or 'void'
        if re.match(EXC, c) and g.cty(ret) == 'void':
            # std exception constructors/destructors (bodies live in libstdc++.so): message text is not part of any property
            protos.append('void %s(%s);' % (fname(c), a)); bodies.append('void %s(%s) { }\n' % (fname(c), a)); g.stats['stubbed_exception_ctor_dtor'] += 1
            continue
        if any(re.search(rx, c) for rx in OPTS['unreachable']) and not va:
            # external of third-party code that no encoded path may reach: reaching it is a BOUND failure (never silently ignored)
            rt_ = g.cty(ret)
            protos.append('%s %s(%s);' % (rt_, fname(c), a))
            bodies.append('%s %s(%s) { RT_ASSERT(0, "BOUND: external stubbed as unreachable was reached"); RT_ASSUME(0); %s }\n' % (rt_, fname(c), a, '' if rt_ == 'void' else ('return (%s)0;' % rt_ if ret.k in ('int', 'ptr', 'float', 'double') else '{ %s z_ = {0}; return z_; }' % rt_)))
            g.stats['stubbed_unreachable'] += 1
            continue
        protos.append('%s %s(%s%s);' % (g.cty(ret), fname(c), a, ', ...' if va else ''))
    # types: order named structs by by-value dependency
    order = []; state = {}
    def deps(t, acc):
        if t.k == 'named': acc.append(t.name)
        elif t.k == 'struct':
            for e in t.els: deps(e, acc)
        elif t.k == 'arr': deps(t.el, acc)
    def visit(n):
        if state.get(n) == 2: return
        state[n] = 1
        acc = []; deps(m.types[n], acc)
        for d in acc:
            if state.get(d) != 1: visit(d)
        state[n] = 2; order.append(n)
    for n in m.types: visit(n)
    out = ['#include "rt.h"']
    for n in order: out.append('struct T_%s;' % mangle(n))
    tdefs = []
    for n in order:
        t = m.types[n]
        k = len(g.anon_defs)
        body = g.struct_body('struct T_' + mangle(n), t) if t.k == 'struct' else 'struct T_%s { %s; };' % (mangle(n), g.decl(t, 'f0'))
        tdefs.append((k, body))
    # interleave anon defs (created lazily) before the named struct that needed them; simplest: emit all anon defs
    # that only use already-defined things.  Do a fixed-point textual ordering by dependency on 'struct X' by value.
    allt = list(g.anon_defs) + [b for _, b in tdefs]
    defined = set(); emitted = []
    def needs(d):
        head = re.match(r'(typedef .*|struct \w+)', d).group(0)
        inner = d[d.index('{'):] if '{' in d and not d.startswith('typedef') else ''
        return set(re.findall(r'(struct \w+) \w+(?:\[\d+\])?;', inner))
    while allt:
        prog = False
        for d in list(allt):
            if d.startswith('typedef') or needs(d) <= defined:
                emitted.append(d); allt.remove(d); prog = True
                mo = re.match(r'(struct \w+) \{', d)
                if mo: defined.add(mo.group(1))
        if not prog: raise SystemExit('type cycle: ' + allt[0][:200])
    fwd = sorted(set(re.findall(r'struct (?:An|Ar)_\d+', '\n'.join(g.anon_defs))))
    out += [f + ';' for f in fwd]
    out += [d for d in emitted if d.startswith('typedef')]
    out += [d for d in emitted if not d.startswith('typedef')]
    out += protos
    out += [gdefs[k] for k in sorted(gdefs)]
    out += bodies
    translate.stats = dict(g.stats); translate.functions = sorted(seen & set(m.funcs))
    return '\n'.join(out) + '\n', ext

if __name__ == '__main__':
    m = parse_module(open(sys.argv[1]).read())
    roots = sys.argv[3:] or [n for n in m.forder if not re.match(r'@_Z|@__|@_GLOBAL', n)]
    c, ext = translate(m, roots)
    open(sys.argv[2], 'w').write(c)
    sys.stderr.write('externals: %s\n' % ' '.join(ext))
