#!/bin/bash
# runs the thorough tier of every claimed property, one after the other (each check parallelises its own jobs)
cd "$(dirname "$0")/.."
for p in C03 C04 C13 C14 C05 C15 C06 C09 C11 C18 C20 C07 C16 C01; do
  echo "=== $p $(date)"; VERIF_WORKERS=3 ./check.py $p --tier thorough 2>&1 | grep -a "^\[$p\]\|^VIOLATION\|^INCONCLUSIVE\|^KNOWN" | cut -c1-400
done
