#!/bin/bash
# runs the thorough tier of the claimed properties, one after the other (each check parallelises its own jobs).
# C01's thorough jobs are a subset of C02's (same job names, same bounds cache), C14/C17/C20 have no thorough-only job: not repeated here.
cd "$(dirname "$0")/.."
for p in ${@:-C02 C07 C16 C18 C09 C11 C19 C06 C05 C03 C13 C04 C15}; do
  echo "=== $p $(date)"; VERIF_WORKERS=${VERIF_WORKERS:-4} ./check.py $p --tier thorough 2>&1 | grep -a "^\[$p\]\|^VIOLATION\|^INCONCLUSIVE\|^KNOWN" | cut -c1-400
done
echo "=== done $(date)"
