#!/usr/bin/env python3
"""print the cbmc command line of a job as recorded in the last evidence file: jobcmd.py C03 pla_k3"""
import json, sys
sys.path.insert(0, '/verif')
import check
from jobs import JOBS
prop, name = sys.argv[1], sys.argv[2]
job = [j for j in JOBS[prop] if j['name'] == name][0]
e = json.load(open('/verif/evidence/%s.json' % prop))
jj = [x for x in e['coverage']['jobs'] if x['job'] == name][0]
wd = '/verif/build/%s/%s' % (prop, name)
us = ','.join('%s:%d' % kv for kv in jj['cbmc']['unwindset'].items())
cmd = ['cbmc', '/verif/harness/' + job['harness'], wd + '/unit.c', '/verif/rt/rt.c', '-I/verif/rt', '-I/verif/harness', '-DWITNESS'] + check.defs_flags(job['defs']) + \
      [x for x in check.CBMC_BASE if x != '--trace'] + ['--unwind', '1', '--unwindset', us, '--sat-solver', 'cadical']
print(' '.join("'%s'" % c for c in cmd) + ' "$@"')
