#!/usr/bin/env python3
"""writes /verif/MANIFEST.json from jobs.py (checks) and the not_applicable table below"""
import json, sys, subprocess
sys.path.insert(0, '/verif')
from jobs import JOBS, PROPS

NA = {
    'C08': 'CompressedPGMIndex: every level stores its intercepts in an sdsl::sd_vector with a select support, the construction that already exceeds 29 GB of SAT memory for one key in the Elias-Fano probe (C10), plus std::sort/std::round/long double slope merging on top; not attempted beyond the translation probe (needs llvm.fmuladd.f80, done) and the fixed-data probe of C10, which fails for the same reason; not claimed',
    'C10': 'EliasFanoPGMIndex: attempted (units/eliasfano.cpp): the real sdsl::sd_vector / select_support_mcl code translates and the differential run agrees with the real build on 400/400 cases, but the SAT instance for a single key (n = 1) needs more than 29 GB (killed) - the select-support construction (4096-entry blocks) dominates. A second attempt on ONE concrete data set of 9 keys with only the query symbolic (jobs.py EF_FIXED_PROBE): 9 s and 1.2 GB while the loop bounds are small, but the select-support loops must be unwound in full even on concrete data and the run dies at 11.9 GB during bound refinement (14 GB cap); no verdict, not claimed',
    'C12': 'the property is about fstream, stat, open, mmap and bytes on disk: code behind I/O and libstdc++.so; modelling the file system would decide a property of the model',
    'C19': 'copy/move of the vector-only classes is the container model\'s own copy/move (libstdc++ container code is replaced by the model); the interesting case (CompressedLevel::sel1 pointing into the source) is sdsl code (C08)',
}
LEVEL_TEXT = 'bounded symbolic execution (CBMC/SAT) of the real template instantiations, regenerated from /repo on every run: the assertion holds for ALL inputs inside the stated bounds or a counterexample is replayed on the real build; nothing is claimed outside the bounds (see evidence.coverage.outside_the_claim)'
checks = []
for p in sorted(JOBS):
    pr = PROPS[p]
    checks.append({
        'property_id': p,
        'quick_cmd': './check.py %s --tier quick' % p,
        'thorough_cmd': './check.py %s --tier thorough' % p,
        'evidence_file': 'evidence/%s.json' % p,
        'replay_cmd_template': './check.py --replay {path}',
        'engine': 'll2c+cbmc',
        'level_claimed': {'category': pr['level'], 'text': (pr['explanation'] + ' ' + LEVEL_TEXT).strip(), 'design_ref': 'DESIGN.md section 2'},
        'level_note': 'Trusted base: clang -O1 IR of the instantiation, tools/ll2c.py, rt/rt.c, the container models, CBMC + SAT solver, the harness oracle. ' + ' '.join(pr.get('assumptions', [])),
        'technique': 'bounded model checking of the real C++ via LLVM IR -> C translation (CBMC, SAT), counterexample replay on the real build',
    })
hooks = subprocess.run(['git', '-C', '/repo', 'log', '--format=%H %s'], capture_output=True, text=True).stdout.strip().split('\n')
m = {
    'version': 1,
    'setup_cmd': 'python3 -c "import sys; sys.path.insert(0, \'tools\'); import ll2c" && cbmc --version && clang++-14 --version > /dev/null',
    'hooks': {'guard': 'PGM_INDEX_VERIF', 'enable': '-DPGM_INDEX_VERIF on the clang++/g++ command lines of the unit wrappers (check.py)',
              'baseline_off_cmd': 'cmake -S /repo -B /repo/_build -G Ninja && cmake --build /repo/_build && ctest --test-dir /repo/_build -j8 --timeout 900',
              'source_commits': [h.split()[0] for h in hooks if 'verif hook' in h], 'add_only': True},
    'engines': [{'name': 'll2c+cbmc', 'path': 'check.py', 'serves_properties': sorted(JOBS),
                 'kind_free_text': 'clang++-14 -emit-llvm -> tools/ll2c.py (LLVM IR -> C) -> cbmc 6.11 (cadical); differential validation against and replay on a g++/ASan build of the real code'}],
    'checks': checks,
    'notes': 'exit 0 = held on everything explored; exit 1 + VIOLATION line = counterexample reproduced on the real build; exit 2 = INCONCLUSIVE (timeout, out of memory, bound not established): never reported as success. fix: commits in /repo: ' + '; '.join(h for h in hooks if ' fix:' in h),
    'not_applicable': [{'property_id': k, 'reason': v} for k, v in sorted(NA.items()) if k not in JOBS],
}
json.dump(m, open('/verif/MANIFEST.json', 'w'), indent=1)
print('checks:', [c['property_id'] for c in checks], 'n/a:', [x['property_id'] for x in m['not_applicable']])
