#!/usr/bin/env python3
"""fills the SEED_TABLE placeholder region of DESIGN.md from seeded/results.tsv"""
import csv, re
rows = [r for r in csv.reader(open('/verif/seeded/results.tsv'), delimiter='\t') if r and not r[0].startswith('#')]
t = ['| seed | property | origin | needs | verdict | caught by |', '|---|---|---|---|---|---|']
for r in rows:
    r = (r + [''] * 7)[:7]
    t.append('| %s | %s | %s | %s | **%s** | %s |' % (r[0], r[1], r[2], r[3].replace('|', '\\|'), r[4], r[5].replace('|', '\\|')))
d = open('/verif/DESIGN.md').read()
block = '<!-- SEED_TABLE_BEGIN -->\n' + '\n'.join(t) + '\n<!-- SEED_TABLE_END -->'
if 'SEED_TABLE_BEGIN' in d: d = re.sub(r'<!-- SEED_TABLE_BEGIN -->.*?<!-- SEED_TABLE_END -->', lambda m: block, d, flags=re.S)
else: d = d.replace('SEED_TABLE', block)
open('/verif/DESIGN.md', 'w').write(d)
print(len(rows), 'rows')
