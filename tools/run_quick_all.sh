#!/bin/bash
# runs the quick tier of every claimed property, one after the other, in /verif against /repo (writes evidence/ and bounds/)
cd "$(dirname "$0")/.."
for p in C14 C13 C20 C05 C15 C06 C09 C11 C03 C04 C18 C07 C16 C19 C01 C02 C17; do
  echo "=== $p $(date)"; /usr/bin/time -f "wall_total=%es" ./check.py $p --tier quick 2>&1 | grep -a "^\[$p\]\|^VIOLATION\|^INCONCLUSIVE\|^KNOWN\|^wall_total" | cut -c1-300
done
