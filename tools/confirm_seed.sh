#!/bin/bash
# confirm_seed.sh <name> <patch.diff> <demo.cpp> [extra demo compile args...]
# Confirms, in a scratch worktree of /repo HEAD: demo passes on the clean tree, fails with the patch; the unedited test suite
# still builds and passes with the patch.  Prints one summary line.  Removes the worktree afterwards.
name=$1; patch=$2; demo=$3; shift 3
wt=/tmp/confirm_$name
git -C /repo worktree remove --force $wt 2>/dev/null; git -C /repo worktree add -q --detach $wt HEAD || exit 9
cd $wt
g++ -std=c++17 -O1 -march=native -I$wt/include -I$wt/c-interface "$demo" "$@" -o demo_clean > /dev/null 2>&1; ./demo_clean > demo_clean.out 2>&1; rc_clean=$?
git apply "$patch" || { echo "seed=$name PATCH-DOES-NOT-APPLY"; git -C /repo worktree remove --force $wt; exit 8; }
extra=()
for a in "$@"; do extra+=("$a"); done
g++ -std=c++17 -O1 -march=native -I$wt/include -I$wt/c-interface "$demo" "${extra[@]}" -o demo_patched > /dev/null 2>&1; ./demo_patched > demo_patched.out 2>&1; rc_patched=$?
cmake -S . -B _b -G Ninja -DBUILD_EXAMPLES=OFF -DBUILD_PGM_TUNER=OFF -DBUILD_PGM_BENCHMARK=OFF > /dev/null 2>&1 && cmake --build _b > build.log 2>&1; rc_build=$?
( cd _b/test && ./tests > ../../tests.out 2>&1 ); rc_tests=$?
echo "seed=$name demo_clean_exit=$rc_clean demo_patched_exit=$rc_patched build_exit=$rc_build tests_exit=$rc_tests $(tail -n 2 tests.out | tr '\n' ' ')"
tail -n 3 demo_patched.out | cut -c1-300
cd /; git -C /repo worktree remove --force $wt
