#!/usr/bin/env python3
"""writes seeded/<id>/meta.json from seeded/results.tsv (+ the confirmation / evaluation logs kept next to it)"""
import json, os, csv
root = '/verif/seeded'
for row in csv.reader(open(os.path.join(root, 'results.tsv')), delimiter='\t'):
    if not row or row[0].startswith('#'): continue
    sid, prop, origin, needs, verdict, caught_by, notes = (row + [''] * 7)[:7]
    d = os.path.join(root, sid)
    if not os.path.isdir(d): continue
    meta = {
        'seed': sid, 'breaks_property': prop, 'origin': origin, 'what_changed': notes, 'needs_to_manifest': needs,
        'files': sorted(os.listdir(d)),
        'confirmed': {},
        'checks_run': 'tools/eval_seed.sh %s seeded/%s/patch.diff %s  (patch applied to a scratch worktree of /repo HEAD; checks run with VERIF_REPO pointing at it; /repo untouched)' % (sid, sid, prop),
        'verdict': verdict, 'caught_by': caught_by,
    }
    for kind in ('confirm', 'eval'):
        p = os.path.join(d, kind + '.log')
        if os.path.exists(p): meta['confirmed' if kind == 'confirm' else 'evaluation_log'] = open(p).read().strip().split('\n')[-12:]
    json.dump(meta, open(os.path.join(d, 'meta.json'), 'w'), indent=1)
    print(sid, verdict)
