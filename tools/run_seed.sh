#!/bin/bash
# run_seed.sh <seed-id> <worktree-with-patch-applied> <PROP> [check.py args...]
# Runs the checks of PROP against a patched copy of the repository (VERIF_REPO), leaving /repo and the real evidence untouched.
id=$1; wt=$2; prop=$3; shift 3
cd /verif && VERIF_REPO=$wt VERIF_TAG=seed_${id}_ ./check.py $prop "$@"
