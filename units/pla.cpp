// Unit wrappers around the piecewise-linear model builder (real code, no logic of their own):
//   u_pla     : OptimalPiecewiseLinearModel<KEY,size_t>::add_point x k, then get_segment()
//   u_mkseg   : make_segmentation_par(n, eps, in, out) with harness-supplied chunk count (hook H1)
#ifdef VERIF_MODEL
#include "verif_std.hpp"
#endif
#include "pgm/piecewise_linear_model.hpp"
#include <cstdint>
#include <cstddef>

using OPLM = pgm::internal::OptimalPiecewiseLinearModel<KEY, size_t>;
using CS = OPLM::CanonicalSegment;

struct pgm_verif_access {
    // rectangle corner i of a canonical segment -> (x, y); y is a size_t rank
    static void rect(const CS &cs, int64_t *out) {
        for (int i = 0; i < 4; ++i) { out[2 * i] = int64_t(cs.rectangle[i].x); out[2 * i + 1] = int64_t(cs.rectangle[i].y); }
    }
};

static void dump(const CS &cs, int64_t *out) {
    // out[0..7] rectangle, out[8] first_x, out[9] rounded intercept at origin = first_x
    pgm_verif_access::rect(cs, out);
    out[8] = int64_t(cs.get_first_x());
    auto fs = cs.get_floating_point_segment(cs.get_first_x());
    out[9] = int64_t(fs.second);
}

// Feeds points until the first rejection.  Returns rc (0 ok, 2 logic_error, 1 invalid_argument); *accepted = number of points
// accepted into the current segment; seg = dump of get_segment() over the accepted prefix.
extern "C" __attribute__((noinline)) int u_pla(const KEY *xs, const size_t *ys, size_t k, size_t eps, size_t *accepted, int64_t *seg) {
    try {
        OPLM opt(eps);
        size_t a = 0;
        for (size_t i = 0; i < k; ++i) {
            if (!opt.add_point(xs[i], ys[i]))
                break;
            ++a;
        }
        *accepted = a;
        if (a > 0) {
            CS cs = opt.get_segment();
            dump(cs, seg);
        }
        return 0;
    } catch (const std::invalid_argument &) { return 1; }
      catch (const std::logic_error &) { return 2; }
}

#ifndef MAXSEG
#define MAXSEG 8
#endif
// Runs the real segmentation driver over d[0..n).  segs = MAXSEG records of 10 values each (see dump).  Returns rc; *count =
// value returned by make_segmentation_par, *emitted = number of out() calls.
extern "C" __attribute__((noinline)) int u_mkseg(const KEY *d, size_t n, size_t eps, int chunks, size_t *count, size_t *emitted, int64_t *segs) {
    try {
        pgm::internal::pgm_verif_parallelism = chunks;
        size_t e = 0;
        auto in = [d](size_t i) { return d[i]; };
        auto out = [&e, segs](const CS &cs) { if (e < MAXSEG) dump(cs, segs + 10 * e); ++e; };
        *count = pgm::internal::make_segmentation_par(n, eps, in, out);
        *emitted = e;
        return 0;
    } catch (const std::invalid_argument &) { return 1; }
      catch (const std::logic_error &) { return 2; }
}

// One chunk of the chunked builder: the real make_segmentation(n, start, end, ...) on the sub-range [start, end) of d[0..n).
extern "C" __attribute__((noinline)) int u_mkseg_range(const KEY *d, size_t n, size_t start, size_t end, size_t eps, size_t *count, size_t *emitted, int64_t *segs) {
    try {
        size_t e = 0;
        auto in = [d](size_t i) { return d[i]; };
        auto out = [&e, segs](const CS &cs) { if (e < MAXSEG) dump(cs, segs + 10 * e); ++e; };
        *count = pgm::internal::make_segmentation(n, start, end, eps, in, out);
        *emitted = e;
        return 0;
    } catch (const std::invalid_argument &) { return 1; }
      catch (const std::logic_error &) { return 2; }
}
