// Unit wrapper: real PGMIndex constructor + search.  No logic beyond marshalling and try/catch -> return code.
#ifdef VERIF_MODEL
#include "verif_std.hpp"
#endif
#include "pgm/pgm_index.hpp"
#include <cstdint>
#include <cstddef>
extern "C" __attribute__((noinline)) int u_pgm_e2e(const KEY *d, size_t n, const KEY *q, size_t *out) {
    try {
        pgm::PGMIndex<KEY, EPS, EPSREC, FLT> idx(d, d + n);
        auto r = idx.search(*q);
        out[0] = r.pos; out[1] = r.lo; out[2] = r.hi; out[3] = idx.segments_count(); out[4] = idx.height();
        return 0;
    } catch (const std::invalid_argument &) { return 1; }
      catch (const std::logic_error &) { return 2; }
      catch (const std::overflow_error &) { return 3; }
}
