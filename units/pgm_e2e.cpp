// Unit wrapper: real PGMIndex constructor + search.  No logic beyond marshalling and try/catch -> return code.
//   out[0..2] = pos, lo, hi   out[3] = segments_count()   out[4] = height()
//   out[5]    = largest routing deviation recorded by the segment_for_key hook during this search (C07)
//   out[6]    = 1 iff the index object (n, first_key, every segment, every level offset) is bit-identical before and after
//               search() and a second search() returns the same triple (C16 frame condition / determinism)
#ifdef VERIF_MODEL
#include "verif_std.hpp"
#endif
#include "pgm/pgm_index.hpp"
#include <cstdint>
#include <cstddef>
#include <cstring>

using Idx = pgm::PGMIndex<KEY, EPS, EPSREC, FLT>;
struct IdxA : Idx {
    using Idx::Idx; using Idx::n; using Idx::first_key; using Idx::segments; using Idx::levels_offsets;
    size_t nseg() const { return segments.size(); }
    const unsigned char *segbytes() const { return reinterpret_cast<const unsigned char *>(segments.data()); }
    size_t segsize() const { return segments.size() * sizeof(segments[0]); }
};
#ifndef SNAP_MAX
#define SNAP_MAX 256
#endif
#ifdef WITH_FRAME
#include "verif_frame.hpp"
#endif

extern "C" __attribute__((noinline)) int u_pgm_e2e(const KEY *d, size_t n, const KEY *q, size_t *out) {
    try {
#ifdef WITH_FRAME
        VerifArenaScope arena;                      // real build: the index and all it allocates live in the arena
        VERIF_FRAMED(IdxA, idx, d, d + n);
        arena.stop();
#else
        IdxA idx(d, d + n);
#endif
#ifdef WITH_FRAME
        unsigned char snap[SNAP_MAX]; size_t offs[16];
        size_t sb = idx.segsize(), nl = idx.levels_offsets.size();
        size_t n0 = idx.n; KEY fk0 = idx.first_key;
        unsigned char obj0[sizeof(IdxA)];                 // every byte of the index object itself (any member, present or future)
        std::memcpy(obj0, static_cast<const void *>(&idx), sizeof(IdxA));
        if (sb > SNAP_MAX || nl > 16) return 8;
        for (size_t i = 0; i < sb; ++i) snap[i] = idx.segbytes()[i];
        for (size_t i = 0; i < nl; ++i) offs[i] = idx.levels_offsets[i];
#endif
#ifdef PGM_INDEX_VERIF
        pgm::pgm_verif_max_route_dev = 0;
#endif
#ifdef WITH_FRAME
        verif_frame_begin(&idx, nullptr, nullptr, nullptr);
#endif
        auto r = idx.search(*q);
#ifdef WITH_FRAME
        auto r2 = idx.search(*q);
        verif_frame_end();
#endif
        out[0] = r.pos; out[1] = r.lo; out[2] = r.hi; out[3] = idx.segments_count(); out[4] = idx.height();
#ifdef PGM_INDEX_VERIF
        out[5] = pgm::pgm_verif_max_route_dev;
#endif
#ifdef WITH_FRAME
        bool same = r2.pos == r.pos && r2.lo == r.lo && r2.hi == r.hi && idx.n == n0 && idx.first_key == fk0
                    && idx.segsize() == sb && idx.levels_offsets.size() == nl;
        {
            unsigned char obj1[sizeof(IdxA)];
            std::memcpy(obj1, static_cast<const void *>(&idx), sizeof(IdxA));
            for (size_t i = 0; i < sizeof(IdxA) && same; ++i) same = obj0[i] == obj1[i];
        }
        for (size_t i = 0; i < sb && same; ++i) same = snap[i] == idx.segbytes()[i];
        for (size_t i = 0; i < nl && same; ++i) same = offs[i] == idx.levels_offsets[i];
        out[6] = same;
#endif
        return 0;
    } catch (const std::invalid_argument &) { return 1; }
      catch (const std::logic_error &) { return 2; }
      catch (const std::overflow_error &) { return 3; }
}
