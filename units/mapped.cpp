// Unit wrapper: query algorithms of the real MappedPGMIndex (lower_bound / upper_bound / count / contains / begin / end / size)
// on an object whose PGMIndex base is built by the real constructor and whose private data pointer is aimed at the caller's
// array through the verification accessor (the file/mmap layer is not encoded: see C12).
#ifdef VERIF_MODEL
#include "pgm/sdsl.hpp"
#include "verif_std.hpp"
#endif
#include "pgm/pgm_index.hpp"
#include "pgm/pgm_index_variants.hpp"
#include <cstdint>
#include <cstddef>
#include <new>
#include <cstring>
#ifdef WITH_FRAME
#include "verif_frame.hpp"
#endif

using M = pgm::MappedPGMIndex<KEY, EPS, EPSREC>;
using MBase = pgm::PGMIndex<KEY, EPS, EPSREC>;

struct pgm_verif_access {
    static M *make(void *storage, const KEY *d, size_t n) {
        new(storage) MBase(d, d + n);
        M *m = reinterpret_cast<M *>(storage);
        m->data = const_cast<KEY *>(d);
        m->file_bytes = 0;
        m->header_bytes = 0;
        return m;
    }
    static void destroy(M *m) { static_cast<MBase *>(m)->~MBase(); }
};

// out: [0] lower_bound pos [1] upper_bound pos [2] count [3] contains [4] size [5] begin()==d [6] end()-begin()
extern "C" __attribute__((noinline)) int u_mapped(const KEY *d, size_t n, const KEY *q, size_t *out) {
    try {
#if defined(WITH_FRAME) && !defined(VERIF_MODEL)
        VerifArenaScope arena;                      // real build: the object and its buffers live in the arena (read-only during the queries)
        unsigned char *storage = static_cast<unsigned char *>(verif_arena_alloc(sizeof(M)));
        M *m = pgm_verif_access::make(storage, d, n);
        arena.stop();
        struct Unprotect { ~Unprotect() { verif_frame_end(); } } unprotect;      // before destroy() on every path
#else
        alignas(M) unsigned char storage[sizeof(M)];
        M *m = pgm_verif_access::make(storage, d, n);
#endif
#ifdef WITH_FRAME
        unsigned char obj0[sizeof(M)], obj1[sizeof(M)];
        std::memcpy(obj0, static_cast<const void *>(m), sizeof(M));
        verif_frame_begin(storage, d, nullptr, nullptr);      // writes, not only changes: the object, the mapped data, every heap buffer
#endif
        out[0] = m->lower_bound(*q) - m->begin();
        out[1] = m->upper_bound(*q) - m->begin();
        out[2] = m->count(*q);
        out[3] = m->contains(*q);
        out[4] = m->size();
        out[5] = m->begin() == d;
        out[6] = m->end() - m->begin();
#ifdef WITH_FRAME
        verif_frame_end();
        {   // C16 frame condition: every byte of the container object is unchanged by the queries, which are deterministic
            std::memcpy(obj1, static_cast<const void *>(m), sizeof(M));
            bool same = true;
            for (size_t i = 0; i < sizeof(M) && same; ++i) same = obj0[i] == obj1[i];
            same = same && size_t(m->lower_bound(*q) - m->begin()) == out[0] && size_t(m->upper_bound(*q) - m->begin()) == out[1] && m->count(*q) == out[2];
            out[7] = same;
        }
#endif
        pgm_verif_access::destroy(m);
        return 0;
    } catch (const std::invalid_argument &) { return 1; }
      catch (const std::logic_error &) { return 2; }
      catch (const std::overflow_error &) { return 3; }
}
