// Unit wrapper: real DynamicPGMIndex<uint8_t, uint8_t, PGMIndex<uint8_t, EPS, EPSREC>>: bulk-load, a history of updates, then queries.
#ifdef VERIF_MODEL
#define VERIF_MODEL_SET
#include "verif_std.hpp"
#endif
#include "pgm/pgm_index.hpp"
#include "pgm/pgm_index_dynamic.hpp"
#include <cstdint>
#include <cstddef>
#include <utility>

using DK = uint8_t;
using DV = uint8_t;
using PGMT = pgm::PGMIndex<DK, EPS, EPSREC>;
using Dyn = pgm::DynamicPGMIndex<DK, DV, PGMT>;

#ifndef MAXOUT
#define MAXOUT 8
#endif

#ifndef INV_DETAIL_LEVELS
#define INV_DETAIL_LEVELS 5
#endif
struct pgm_verif_access {
    struct PA : PGMT { using PGMT::n; using PGMT::first_key; using PGMT::segments; };
    // C15: returns a bit mask of violated invariants (0 = all hold)
    static size_t tail_empty(const Dyn &d, size_t from) {
        size_t bad = 0;
        for (size_t j = from; j < d.levels.size(); ++j)
            if (!d.levels[j].empty()) bad |= 4;
        return bad;
    }
    static size_t invariants(const Dyn &d) {
        size_t bad = 0;
        size_t nlev = d.levels.size();
        if (d.used_levels < d.min_level) bad |= 64;
        for (size_t j = 0; j < nlev; ++j) {
            uint8_t lv = uint8_t(d.min_level + j);
            const auto &L = d.levels[j];
            if (j >= INV_DETAIL_LEVELS)     // levels no history inside the bounds can reach: they must simply be empty
                return bad | tail_empty(d, j);
            for (size_t t = 1; t < L.size(); ++t)
                if (!(L[t - 1].first < L[t].first)) bad |= 1;                       // strictly sorted by key
            size_t cap = lv == d.min_level ? d.buffer_max_size : d.max_size(lv);
            if (L.size() > cap) bad |= 2;                                           // capacity
            if (lv >= d.used_levels && !L.empty()) bad |= 4;                        // nothing beyond the used levels
            if (d.has_pgm(lv) && size_t(lv - d.min_index_level) < d.pgms.size()) {
                const PA &p = static_cast<const PA &>(d.pgm(lv));
                if (!L.empty()) {
                    if (p.n != L.size() || p.first_key != L[0].first) bad |= 8;     // index built over exactly this level
                    for (size_t t = 0; t < L.size(); ++t) {
                        auto r = d.pgm(lv).search(L[t].first);
                        if (!(r.lo <= t && t < r.hi)) bad |= 16;
                    }
                } else if (p.n != 0 || !p.segments.empty()) bad |= 32;              // emptied level => index reset
            } else if (d.has_pgm(lv) && !L.empty()) bad |= 8;
        }
        return bad;
    }
};

// ops: nops triples (kind, key, value); kind 0 = insert_or_assign, 1 = erase.   q: {find key, lower_bound key, range lo, range hi}
// out layout: [0] find hit [1] find value [2] count [3] lb hit [4] lb key [5] lb value [6] size() [7] empty() [8] invariant mask
//             [9] #iterated, [10 .. 10+2*MAXOUT) iterated pairs, [10+2*MAXOUT] #range, then range pairs, last: #iterated from lower_bound(q[1])
extern "C" __attribute__((noinline)) int u_dyn(const DK *bk, const DV *bv, size_t nbulk, const uint8_t *ops, size_t nops, const DK *q, size_t *out) {
    try {
        std::pair<DK, DV> bulk[MAXBULK + 1];
        for (size_t i = 0; i < nbulk; ++i) bulk[i] = {bk[i], bv[i]};
        Dyn d(bulk, bulk + nbulk, BASE, BUFL, IDXL);
        for (size_t i = 0; i < nops; ++i) {
            if (ops[3 * i] == 0) d.insert_or_assign(ops[3 * i + 1], ops[3 * i + 2]);
            else d.erase(ops[3 * i + 1]);
#if DMODE == 2 && defined(INV_EACH_STEP)
            out[8] |= pgm_verif_access::invariants(d);      // after EVERY operation of the history (a stale index may be repaired by a later merge)
#endif
        }
#if DMODE == 2
        out[8] |= pgm_verif_access::invariants(d);
#endif
        auto e = d.end();
#if DMODE == 0
        auto f = d.find(q[0]);
        out[0] = f != e; out[1] = f != e ? f->second : 0;
        out[2] = d.count(q[0]);
        auto lb = d.lower_bound(q[1]);
        out[3] = lb != e; out[4] = lb != e ? lb->first : 0; out[5] = lb != e ? lb->second : 0;
#endif
#if DMODE == 1
        size_t c = 0;
        for (auto it = d.begin(); it != e; ++it) {
            if (c < MAXOUT) { out[10 + 2 * c] = it->first; out[11 + 2 * c] = it->second; }
            if (++c > 4 * MAXOUT) return 9;
        }
        out[9] = c;
#endif
#if DMODE == 3
        out[6] = d.size(); out[7] = d.empty();
        auto r = d.range(q[2], q[3]);
        size_t base = 10 + 2 * MAXOUT;
        out[base] = r.size();
        for (size_t i = 0; i < r.size() && i < MAXOUT; ++i) { out[base + 1 + 2 * i] = r[i].first; out[base + 2 + 2 * i] = r[i].second; }
#endif
#if DMODE == 4
        auto lb2 = d.lower_bound(q[1]);
        size_t c2 = 0;
        for (auto it = lb2; it != e; ++it)
            if (++c2 > 4 * MAXOUT) return 9;
        out[10 + 2 * MAXOUT + 1 + 2 * MAXOUT] = c2;
#endif
        return 0;
    } catch (const std::invalid_argument &) { return 1; }
      catch (const std::logic_error &) { return 2; }
      catch (const std::overflow_error &) { return 3; }
}
