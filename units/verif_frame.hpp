// C16, writes (not only changes): around a const query the storage the container owns is declared a frame.
//  * model build (CBMC / twin): verif_frame_begin(a, b, c, d) registers up to four non-heap objects (the container object itself, the caller's
//    data array); EVERY heap object that exists at that moment is part of the frame as well.  With the job option frame_stores the translator
//    puts an assertion in front of every store the real code performs: while the frame is on, a store hits neither a registered object nor a
//    heap object allocated before the frame began (objects allocated during the query - e.g. the iterator's cursors - may be written).
//  * real build (replay / differential run): the container and everything it allocates live in a private page-aligned arena
//    (replacement operator new while VerifArenaScope is alive) that is read-only (mprotect) while the frame is on: any store into it,
//    same value or not, faults and the run is reported as a crash of the real code.
#pragma once
#include <cstddef>
#ifdef VERIF_MODEL
extern "C" void verif_frame_begin(const void *a, const void *b, const void *c, const void *d);
extern "C" void verif_frame_end();
struct VerifArenaScope { VerifArenaScope() {} ~VerifArenaScope() {} void stop() {} };
#else
#include <sys/mman.h>
#include <cstdlib>
#include <new>
static unsigned char *verif_arena; static size_t verif_arena_used; static bool verif_arena_on;
static constexpr size_t VERIF_ARENA = size_t(1) << 26;      // the segmentation builder reserves 2^16-point hulls: 64 MB, committed lazily
static void *verif_arena_alloc(size_t n) {
    if (!verif_arena) verif_arena = static_cast<unsigned char *>(mmap(nullptr, VERIF_ARENA, PROT_READ | PROT_WRITE, MAP_PRIVATE | MAP_ANONYMOUS, -1, 0));
    size_t at = (verif_arena_used + 15) & ~size_t(15);
    if (at + n > VERIF_ARENA) std::abort();
    verif_arena_used = at + n;
    return verif_arena + at;
}
static bool verif_in_arena(void *p) { return verif_arena && p >= verif_arena && p < verif_arena + VERIF_ARENA; }
void *operator new(size_t n) { if (verif_arena_on) return verif_arena_alloc(n); void *p = std::malloc(n ? n : 1); if (!p) throw std::bad_alloc(); return p; }
void operator delete(void *p) noexcept { if (!verif_in_arena(p)) std::free(p); }
void operator delete(void *p, size_t) noexcept { if (!verif_in_arena(p)) std::free(p); }
// allocations go to the arena while a scope is alive and not stopped; leaving the scope (also by exception) makes the arena writable again
struct VerifArenaScope {
    VerifArenaScope() { verif_arena_used = 0; verif_arena_on = true; }
    void stop() { verif_arena_on = false; }
    ~VerifArenaScope() { verif_arena_on = false; if (verif_arena) mprotect(verif_arena, VERIF_ARENA, PROT_READ | PROT_WRITE); }
};
inline void verif_frame_begin(const void *, const void *, const void *, const void *) { verif_arena_on = false; mprotect(verif_arena, VERIF_ARENA, PROT_READ); }
inline void verif_frame_end() { mprotect(verif_arena, VERIF_ARENA, PROT_READ | PROT_WRITE); }
#endif
// A container of type T named `name`, constructed from `args`: on the stack in the model build (typed object for CBMC), inside the arena in the
// real build (destroyed when the enclosing scope ends, after the arena has been made writable again).
#ifdef VERIF_MODEL
#define VERIF_FRAMED(T, name, ...) T name(__VA_ARGS__)
#else
template<class T> struct VerifDestroy { T &t; ~VerifDestroy() { if (verif_arena) mprotect(verif_arena, VERIF_ARENA, PROT_READ | PROT_WRITE); t.~T(); } };
#define VERIF_FRAMED(T, name, ...) T &name = *new (verif_arena_alloc(sizeof(T))) T(__VA_ARGS__); VerifDestroy<T> name##_destroy{name}
#endif
