// Unit wrappers for two kernels of DynamicPGMIndex, driven directly (real code, no logic of their own):
//   u_merge      : DynamicPGMIndex::merge<SkipDeleted, Move=false>(newer run, older run) through the accessor hook
//   u_losertree  : internal::LoserTree<uint8_t> used exactly as Iterator::lazy_initialize()/advance() use it
#ifdef VERIF_MODEL
#define VERIF_MODEL_SET
#include "verif_std.hpp"
#endif
#include "pgm/pgm_index.hpp"
#include "pgm/pgm_index_dynamic.hpp"
#include <cstdint>
#include <cstddef>
using DK = uint8_t;
using DV = uint8_t;
using Dyn = pgm::DynamicPGMIndex<DK, DV, pgm::PGMIndex<DK, 1, 1>>;
#ifndef RUNMAX
#define RUNMAX 4
#endif
struct pgm_verif_access {
    using Item = typename Dyn::Item;
    // a / b: triples (key, value, tombstone).  Returns the number of output items; out: triples.
    static size_t merge(bool skip_deleted, const uint8_t *a, size_t na, const uint8_t *b, size_t nb, uint8_t *out) {
        Item ra[RUNMAX], rb[RUNMAX], ro[2 * RUNMAX];
        for (size_t i = 0; i < na; ++i) ra[i] = a[3 * i + 2] ? Item(a[3 * i]) : Item(a[3 * i], a[3 * i + 1]);
        for (size_t i = 0; i < nb; ++i) rb[i] = b[3 * i + 2] ? Item(b[3 * i]) : Item(b[3 * i], b[3 * i + 1]);
        Item *end = skip_deleted ? Dyn::template merge<true, false>(ra, ra + na, rb, rb + nb, ro)
                                 : Dyn::template merge<false, false>(ra, ra + na, rb, rb + nb, ro);
        size_t n = size_t(end - ro);
        for (size_t i = 0; i < n; ++i) { out[3 * i] = ro[i].first; out[3 * i + 1] = ro[i].second; out[3 * i + 2] = ro[i].deleted(); }
        return n;
    }
};
extern "C" __attribute__((noinline)) int u_merge(int skip_deleted, const uint8_t *a, size_t na, const uint8_t *b, size_t nb, uint8_t *out, size_t *nout) {
    *nout = pgm_verif_access::merge(skip_deleted != 0, a, na, b, nb, out);
    return 0;
}

#ifndef KMAXSRC
#define KMAXSRC 4
#endif
#ifndef SEQMAX
#define SEQMAX 2
#endif
// k sources (k >= 1), source s holds len[s] >= 1 sorted keys seq[s*SEQMAX ..].  Pops everything; out: pairs (source, key) in pop order.
extern "C" __attribute__((noinline)) int u_losertree(size_t k, const uint8_t *seq, const uint8_t *len, uint8_t *out, size_t *nout) {
    pgm::internal::LoserTree<DK> tree(k);
    size_t pos[KMAXSRC];
    for (size_t s = 0; s < k; ++s) { pos[s] = 0; tree.insert_start(&seq[s * SEQMAX], s); }
    tree.init();
    size_t remaining = k, n = 0;
    while (remaining > 0) {
        auto s = tree.min_source();
        out[2 * n] = s; out[2 * n + 1] = seq[s * SEQMAX + pos[s]]; ++n;
        ++pos[s];
        if (pos[s] == len[s]) { tree.delete_min_insert(nullptr); --remaining; }
        else tree.delete_min_insert(&seq[s * SEQMAX + pos[s]]);
        if (n > KMAXSRC * SEQMAX) return 9;
    }
    *nout = n;
    return 0;
}
