// Unit wrapper (C16 frame condition for DynamicPGMIndex queries): a history of updates builds the container, every level is
// snapshotted through the accessor hook, the read-only queries run (twice), and the snapshot is compared afterwards.
#ifdef VERIF_MODEL
#define VERIF_MODEL_SET
#include "verif_std.hpp"
#endif
#include "pgm/pgm_index.hpp"
#include "pgm/pgm_index_dynamic.hpp"
#include <cstdint>
#include <cstddef>
#include <utility>
#include "verif_frame.hpp"
using DK = uint8_t;
using DV = uint8_t;
using PGMT = pgm::PGMIndex<DK, EPS, EPSREC>;
using Dyn = pgm::DynamicPGMIndex<DK, DV, PGMT>;
#ifndef SNAP_LEVELS
#define SNAP_LEVELS 3
#endif
#ifndef SNAP_ITEMS
#define SNAP_ITEMS 8
#endif
struct Snap { size_t used, nlev, sz[SNAP_LEVELS]; uint8_t k[SNAP_LEVELS][SNAP_ITEMS], v[SNAP_LEVELS][SNAP_ITEMS]; };
struct pgm_verif_access {
    static bool take(const Dyn &d, Snap &s) {
        s.used = d.used_levels; s.nlev = d.levels.size();
        for (size_t j = 0; j < SNAP_LEVELS; ++j) {
            const auto &L = d.levels[j];
            s.sz[j] = L.size();
            if (L.size() > SNAP_ITEMS) return false;
            for (size_t t = 0; t < L.size(); ++t) { s.k[j][t] = L[t].first; s.v[j][t] = L[t].second; }
        }
        for (size_t j = SNAP_LEVELS; j < d.levels.size(); ++j) if (!d.levels[j].empty()) return false;
        return true;
    }
    static bool same(const Snap &a, const Snap &b) {
        if (a.used != b.used || a.nlev != b.nlev) return false;
        for (size_t j = 0; j < SNAP_LEVELS; ++j) {
            if (a.sz[j] != b.sz[j]) return false;
            for (size_t t = 0; t < a.sz[j]; ++t) if (a.k[j][t] != b.k[j][t] || a.v[j][t] != b.v[j][t]) return false;
        }
        return true;
    }
};
// out[0] = 1 iff the container is bit-identical (levels, sizes, used_levels) after the queries and the two runs of each query agree
extern "C" __attribute__((noinline)) int u_dyn_frame(const uint8_t *ops, size_t nops, const DK *q, size_t *out) {
    try {
        VerifArenaScope arena;                      // real build: the container and all it allocates live in the arena
        VERIF_FRAMED(Dyn, d, uint8_t(BASE), uint8_t(BUFL), uint8_t(IDXL));
        for (size_t i = 0; i < nops; ++i) {
            if (ops[3 * i] == 0) d.insert_or_assign(ops[3 * i + 1], ops[3 * i + 2]);
            else d.erase(ops[3 * i + 1]);
        }
        arena.stop();
        const Dyn &c = d;
        Snap before, after;
        if (!pgm_verif_access::take(c, before)) return 8;
        bool det = true;
        auto e = c.end();
        verif_frame_begin(&d, nullptr, nullptr, nullptr);      // writes, not only changes: see verif_frame.hpp
#if FMODE == 0
        auto f1 = c.find(q[0]); auto f2 = c.find(q[0]);
        det = det && (f1 == f2) && c.count(q[0]) == c.count(q[0]);
        auto l1 = c.lower_bound(q[1]); auto l2 = c.lower_bound(q[1]);
        det = det && (l1 == l2);
#else
        size_t n1 = 0, n2 = 0;
        for (auto it = c.begin(); it != e; ++it) if (++n1 > 64) return 9;
        for (auto it = c.begin(); it != e; ++it) if (++n2 > 64) return 9;
        det = det && n1 == n2;
#endif
        verif_frame_end();
        if (!pgm_verif_access::take(c, after)) return 8;
        out[0] = det && pgm_verif_access::same(before, after);
        return 0;
    } catch (const std::invalid_argument &) { return 1; }
      catch (const std::logic_error &) { return 2; }
      catch (const std::overflow_error &) { return 3; }
}
