// Unit wrapper: real CompressedPGMIndex<KEY, EPS, EPSREC> constructor (build + build_top_level) and search().
#ifdef VERIF_MODEL
#include "pgm/sdsl.hpp"      // sdsl::int_vector keeps its real implementation
#include "verif_std.hpp"
#endif
#include "pgm/pgm_index.hpp"
#include "pgm/pgm_index_variants.hpp"
#include <cstdint>
#include <cstddef>
struct pgm_verif_access {};
extern "C" __attribute__((noinline)) int u_compressed(const KEY *d, size_t n, const KEY *q, size_t *out) {
    try {
        pgm::CompressedPGMIndex<KEY, EPS, EPSREC> idx(d, d + n);
        auto r = idx.search(*q);
        out[0] = r.pos; out[1] = r.lo; out[2] = r.hi; out[3] = idx.segments_count(); out[4] = idx.height();
        return 0;
    } catch (const std::invalid_argument &) { return 1; }
      catch (const std::logic_error &) { return 2; }
      catch (const std::overflow_error &) { return 3; }
}
