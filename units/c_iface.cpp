// Unit wrapper: the C interface itself (c-interface/cpgm.cpp compiled into this unit, model containers underneath).
#ifdef VERIF_MODEL
#define VERIF_MODEL_SET
#include "verif_std.hpp"
#endif
#include "cpgm.cpp"

#define CAT_(a, b, c) a##b##c
#define CAT(a, b, c) CAT_(a, b, c)
#define FN(suffix) CAT(pgm_index_, CTYPE, suffix)
#define DFN(suffix) CAT(dynamic_pgm_index_, CTYPE, suffix)

// static index: create with run-time epsilon, search, destroy.  rc 1 = create returned NULL.
extern "C" __attribute__((noinline)) int u_cpgm(const KEY *d, size_t n, size_t epsilon, const KEY *q, size_t *out) {
    auto p = FN(_create)(d, n, epsilon);
    if (!p) return 1;
    approx_pos_t r = FN(_search)(p, *q);
    out[0] = r.pos; out[1] = r.lo; out[2] = r.hi;
    FN(_destroy)(p);
    return 0;
}
