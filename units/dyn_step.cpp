// Unit wrapper: ONE update of the real DynamicPGMIndex from a directly constructed state (accessor hook), then queries.
// The state (levels, used_levels, per-level indexes) is laid out by the wrapper exactly as insert()/the constructors leave it;
// which states are admitted is decided by the harness (its assumed invariant is the one asserted afterwards: an inductive step).
#ifdef VERIF_MODEL
#define VERIF_MODEL_SET
#include "verif_std.hpp"
#endif
#include "pgm/pgm_index.hpp"
#include "pgm/pgm_index_dynamic.hpp"
#include <cstdint>
#include <cstddef>
#include <utility>

using DK = uint8_t;
using DV = uint8_t;
using PGMT = pgm::PGMIndex<DK, EPS, EPSREC>;
using Dyn = pgm::DynamicPGMIndex<DK, DV, PGMT>;
#ifndef MAXOUT
#define MAXOUT 8
#endif
#ifndef NLEV
#define NLEV 3
#endif
#ifndef LCAP
#define LCAP 8
#endif

#ifndef INV_DETAIL_LEVELS
#define INV_DETAIL_LEVELS 5
#endif
struct pgm_verif_access {
    struct PA : PGMT { using PGMT::n; using PGMT::first_key; using PGMT::segments; };
    using Item = typename Dyn::Item;
    // st: [0] = used_levels, then for each of NLEV levels starting at min_level: size, followed by LCAP triples (key, value, tombstone)
    static void load(Dyn &d, const uint8_t *st) {
        d.used_levels = st[0];
        for (size_t j = 0; j < NLEV; ++j) {
            const uint8_t *p = st + 1 + j * (1 + 3 * LCAP);
            auto &L = d.levels[j];
            for (size_t t = 0; t < p[0]; ++t) {
                if (p[1 + 3 * t + 2]) L.push_back(Item(p[1 + 3 * t]));
                else L.push_back(Item(p[1 + 3 * t], p[1 + 3 * t + 1]));
            }
            uint8_t lv = uint8_t(d.min_level + j);
            if (d.has_pgm(lv)) {
                while (size_t(lv - d.min_index_level) >= d.pgms.size()) d.pgms.emplace_back();
                if (!L.empty()) d.pgm(lv) = PGMT(L.begin(), L.end());
            }
        }
    }
    static size_t tail_empty(const Dyn &d, size_t from) {
        size_t bad = 0;
        for (size_t j = from; j < d.levels.size(); ++j)
            if (!d.levels[j].empty()) bad |= 4;
        return bad;
    }
    static size_t invariants(const Dyn &d) {
        size_t bad = 0;
        size_t nlev = d.levels.size();
        if (d.used_levels < d.min_level) bad |= 64;
        for (size_t j = 0; j < nlev; ++j) {
            uint8_t lv = uint8_t(d.min_level + j);
            const auto &L = d.levels[j];
            if (j >= INV_DETAIL_LEVELS)     // levels no history inside the bounds can reach: they must simply be empty
                return bad | tail_empty(d, j);
            for (size_t t = 1; t < L.size(); ++t)
                if (!(L[t - 1].first < L[t].first)) bad |= 1;
            size_t cap = lv == d.min_level ? d.buffer_max_size : d.max_size(lv);
            if (L.size() > cap) bad |= 2;
            if (lv >= d.used_levels && !L.empty()) bad |= 4;
            if (d.has_pgm(lv) && size_t(lv - d.min_index_level) < d.pgms.size()) {
                const PA &p = static_cast<const PA &>(d.pgm(lv));
                if (!L.empty()) {
                    if (p.n != L.size() || p.first_key != L[0].first) bad |= 8;
                    for (size_t t = 0; t < L.size(); ++t) {
                        auto r = d.pgm(lv).search(L[t].first);
                        if (!(r.lo <= t && t < r.hi)) bad |= 16;
                    }
                } else if (p.n != 0 || !p.segments.empty()) bad |= 32;
            } else if (d.has_pgm(lv) && !L.empty()) bad |= 8;
        }
        return bad;
    }
};

// op: (kind, key, value), kind 0 = insert_or_assign, 1 = erase, 2 = none.   q: {find key, lower_bound key, range lo, range hi}
extern "C" __attribute__((noinline)) int u_dyn_step(const uint8_t *st, const uint8_t *op, const DK *q, size_t *out) {
    try {
        Dyn d(uint8_t(BASE), uint8_t(BUFL), uint8_t(IDXL));
        pgm_verif_access::load(d, st);
        if (op[0] == 0) d.insert_or_assign(op[1], op[2]);
        else if (op[0] == 1) d.erase(op[1]);
#if DMODE == 2
        out[8] = pgm_verif_access::invariants(d);
#endif
        auto e = d.end();
#if DMODE == 0
        auto f = d.find(q[0]);
        out[0] = f != e; out[1] = f != e ? f->second : 0;
        out[2] = d.count(q[0]);
        auto lb = d.lower_bound(q[1]);
        out[3] = lb != e; out[4] = lb != e ? lb->first : 0; out[5] = lb != e ? lb->second : 0;
#endif
#if DMODE == 6
        {
            auto r6 = d.range(q[2], q[3]);
            size_t base6 = 10 + 2 * MAXOUT;
            out[base6] = r6.size();
            for (size_t i = 0; i < r6.size() && i < MAXOUT; ++i) { out[base6 + 1 + 2 * i] = r6[i].first; out[base6 + 2 + 2 * i] = r6[i].second; }
        }
#endif
#if DMODE == 5
        auto f5 = d.find(q[0]);
        out[0] = f5 != e; out[1] = f5 != e ? f5->second : 0;
#endif
#if DMODE == 1
        size_t c = 0;
        for (auto it = d.begin(); it != e; ++it) {
            if (c < MAXOUT) { out[10 + 2 * c] = it->first; out[11 + 2 * c] = it->second; }
            if (++c > 4 * MAXOUT) return 9;
        }
        out[9] = c;
#endif
#if DMODE == 3
        out[6] = d.size(); out[7] = d.empty();
        auto r = d.range(q[2], q[3]);
        size_t base = 10 + 2 * MAXOUT;
        out[base] = r.size();
        for (size_t i = 0; i < r.size() && i < MAXOUT; ++i) { out[base + 1 + 2 * i] = r[i].first; out[base + 2 + 2 * i] = r[i].second; }
#endif
        return 0;
    } catch (const std::invalid_argument &) { return 1; }
      catch (const std::logic_error &) { return 2; }
      catch (const std::overflow_error &) { return 3; }
}
