// Unit wrapper: the real PGMIndex<K,...>::Segment(key, slope, intercept) constructor and Segment::operator()(k) at two keys.
#ifdef VERIF_MODEL
#include "verif_std.hpp"
#endif
#include "pgm/pgm_index.hpp"
#include <cstdint>
#include <cstddef>
#include <cstring>
struct SegA : pgm::PGMIndex<KEY, 1, 1, FLT> { using Seg = typename pgm::PGMIndex<KEY, 1, 1, FLT>::Segment; };
extern "C" __attribute__((noinline)) int u_seg(const KEY *key, const FLT *slope, uint32_t intercept, const KEY *k1, const KEY *k2, size_t *out) {
    SegA::Seg s(*key, *slope, intercept);
    out[0] = s(*key);
    out[1] = s(*k1);
    out[2] = s(*k2);
    return 0;
}
