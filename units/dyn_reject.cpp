// Unit wrapper: the argument checks of the real DynamicPGMIndex (C20).
#ifdef VERIF_MODEL
#define VERIF_MODEL_SET
#include "verif_std.hpp"
#endif
#include "pgm/pgm_index.hpp"
#include "pgm/pgm_index_dynamic.hpp"
#include <cstdint>
#include <cstddef>
#include <utility>
using DK = uint8_t;
using DV = uint8_t;
using Dyn = pgm::DynamicPGMIndex<DK, DV, pgm::PGMIndex<DK, 1, 1>>;
struct pgm_verif_access {};

// kind 0: constructor with the given base.  1: bulk-load of nb pairs.  2: insert_or_assign(k, v) on a container holding `nb` bulk pairs,
// then out[0] = size(), out[1] = find(k) hit, out[2] = its value (container state after a possibly rejected insert).  3: range(lo, hi).
// rc: 0 accepted, 1 std::invalid_argument, 2 other logic_error.
extern "C" __attribute__((noinline)) int u_dyn_reject(int kind, uint8_t base, const DK *bk, const DV *bv, size_t nb, const uint8_t *arg, size_t *out) {
    try {
        if (kind == 0) { Dyn d(base, uint8_t(1), uint8_t(10)); out[0] = d.size(); return 0; }
        std::pair<DK, DV> bulk[MAXBULK + 1];
        for (size_t i = 0; i < nb; ++i) bulk[i] = {bk[i], bv[i]};
        Dyn d(bulk, bulk + nb, uint8_t(2), uint8_t(1), uint8_t(10));
        if (kind == 1) { out[0] = d.size(); return 0; }
        if (kind == 2) {
            int rc = 0;
            try { d.insert_or_assign(arg[0], arg[1]); } catch (const std::invalid_argument &) { rc = 1; }
            out[0] = d.size();
            auto f = d.find(arg[0]);
            out[1] = f != d.end(); out[2] = f != d.end() ? f->second : 0;
            return rc;
        }
        auto r = d.range(arg[0], arg[1]);
        out[0] = r.size();
        return 0;
    } catch (const std::invalid_argument &) { return 1; }
      catch (const std::logic_error &) { return 2; }
}
