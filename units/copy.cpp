// Unit wrapper for C19: copy / move construction and assignment of the real index classes.  The source object lives in a slot whose
// lifetime the wrapper controls: after the copy/move it is DESTROYED and a different index is constructed in the very same storage, so a
// copy that still referred to the source's heap storage (freed) or to its members (now holding another index) answers differently or
// trips a memory-safety check.  CKIND: 0 PGMIndex, 1 BucketingPGMIndex (real sdsl::int_vector copy/move code), 2 MultidimensionalPGMIndex,
// 3 DynamicPGMIndex.
#ifdef VERIF_MODEL
#if CKIND == 1 || CKIND == 2
#include "pgm/sdsl.hpp"
#endif
#if CKIND == 3
#define VERIF_MODEL_SET
#endif
#include "verif_std.hpp"
#endif
#include "pgm/pgm_index.hpp"
#if CKIND == 1 || CKIND == 2
#include "pgm/pgm_index_variants.hpp"
#endif
#if CKIND == 3
#include "pgm/pgm_index_dynamic.hpp"
#endif
#include <cstdint>
#include <cstddef>
#include <new>
#include <tuple>
#include <utility>
struct pgm_verif_access {};
#define NOUT 6
#if CKIND == 0
using Idx = pgm::PGMIndex<uint8_t, EPS, EPSREC>;
static Idx make(const uint8_t *d, size_t n) { return Idx(d, d + n); }
static void query(const Idx &x, const uint8_t *q, size_t *o) {
    auto r = x.search(q[0]);
    o[0] = r.pos; o[1] = r.lo; o[2] = r.hi; o[3] = x.segments_count(); o[4] = x.height(); o[5] = x.size_in_bytes();
}
#elif CKIND == 1
using Idx = pgm::BucketingPGMIndex<uint8_t, EPS, TOPSIZE, 32>;
static Idx make(const uint8_t *d, size_t n) { return Idx(d, d + n); }
static void query(const Idx &x, const uint8_t *q, size_t *o) {
    auto r = x.search(q[0]);
    o[0] = r.pos; o[1] = r.lo; o[2] = r.hi; o[3] = x.segments_count(); o[4] = x.height(); o[5] = x.size_in_bytes();
}
#elif CKIND == 2
using Idx = pgm::MultidimensionalPGMIndex<2, uint32_t, EPS, EPSREC>;
using P2 = std::tuple<uint32_t, uint32_t>;
static Idx make(const uint8_t *d, size_t n) {          // d: n pairs (x, y)
    P2 tmp[NKEYS + 1];
    for (size_t i = 0; i < n; ++i) tmp[i] = P2(d[2 * i], d[2 * i + 1]);
    return Idx(tmp, tmp + n);
}
static void query(Idx &x, const uint8_t *q, size_t *o) {          // contains() is not const-qualified
    o[0] = x.contains(P2(q[0], q[1])); o[1] = x.contains(P2(q[2], q[3])); o[2] = x.size_in_bytes(); o[3] = o[4] = o[5] = 0;
}
#else
using Idx = pgm::DynamicPGMIndex<uint8_t, uint8_t, pgm::PGMIndex<uint8_t, EPS, EPSREC>>;
static Idx make(const uint8_t *d, size_t n) {          // d: n pairs (key, value), keys sorted
    std::pair<uint8_t, uint8_t> tmp[NKEYS + 1];
    for (size_t i = 0; i < n; ++i) tmp[i] = {d[2 * i], d[2 * i + 1]};
    return Idx(tmp, tmp + n, BASE, BUFL, IDXL);
}
static void query(const Idx &x, const uint8_t *q, size_t *o) {
    auto e = x.end(); auto f = x.find(q[0]); auto lb = x.lower_bound(q[1]);
    o[0] = f != e; o[1] = f != e ? f->second : 0; o[2] = x.size(); o[3] = lb != e; o[4] = lb != e ? lb->first : 0; o[5] = lb != e ? lb->second : 0;
}
#endif
template<class T> union Slot { T v; Slot() {} ~Slot() {} };

// mode 0 copy-construct, 1 copy-assign over a default-constructed object, 2 move-construct, 3 move-assign over a default-constructed
// object, 4 copy-assign over a different non-empty index, 5 move-assign over a different non-empty index,
// 6 (Dynamic only) copy-construct, then UPDATE THE SOURCE (op), 7 (Dynamic only) copy-construct, then update the copy and query the source.
// out[0..NOUT): the source's answers before; out[NOUT..2*NOUT): the copy's answers after the source is gone / changed.
extern "C" __attribute__((noinline)) int u_copy(const uint8_t *d, size_t n, const uint8_t *d2, size_t n2, int mode, const uint8_t *op, const uint8_t *q, size_t *out) {
    try {
        Slot<Idx> A, B;
        new (&A.v) Idx(make(d, n));
        query(A.v, q, out);
        switch (mode) {
            case 0: new (&B.v) Idx(A.v); break;
            case 2: new (&B.v) Idx(std::move(A.v)); break;
#if CKIND != 3
            case 1: new (&B.v) Idx(); B.v = A.v; break;
            case 3: new (&B.v) Idx(); B.v = std::move(A.v); break;
#endif
#if CKIND != 3                                  // DynamicPGMIndex has const members: no assignment operators are provided
            case 4: new (&B.v) Idx(make(d2, n2)); B.v = A.v; break;
            case 5: new (&B.v) Idx(make(d2, n2)); B.v = std::move(A.v); break;
#endif
#if CKIND == 3
            case 6: case 7: new (&B.v) Idx(A.v); break;
#endif
            default: A.v.~Idx(); return 8;
        }
#if CKIND == 3
        if (mode == 6 || mode == 7) {
            Idx &upd = mode == 6 ? A.v : B.v;
            if (op[0] == 0) upd.insert_or_assign(op[1], op[2]); else upd.erase(op[1]);
            query(mode == 6 ? B.v : A.v, q, out + NOUT);
            A.v.~Idx(); B.v.~Idx();
            return 0;
        }
#endif
        A.v.~Idx();
        new (&A.v) Idx(make(d2, n2));          // the source's storage now holds a different index
        query(B.v, q, out + NOUT);
        A.v.~Idx(); B.v.~Idx();
        return 0;
    } catch (const std::invalid_argument &) { return 1; }
      catch (const std::logic_error &) { return 2; }
      catch (const std::overflow_error &) { return 3; }
}
