// Unit wrapper: real MultidimensionalPGMIndex<DIMS, CT, EPS> constructor, contains(), range() iteration.
#ifdef VERIF_MODEL
#include "pgm/sdsl.hpp"      // sdsl keeps the real std containers (it is not on any encoded path)
#include "verif_std.hpp"
// the container's own data vector is reserved to exactly n by the constructor: keep *end() out of bounds in the model too
namespace std { template<> struct verif_exact_reserve<CT> { static constexpr bool value = true; }; }
#endif
#include "pgm/pgm_index.hpp"
#include "pgm/pgm_index_variants.hpp"
#include <cstdint>
#include <cstddef>
#include <tuple>

using MD = pgm::MultidimensionalPGMIndex<2, CT, EPS, EPSREC>;
using P2 = std::tuple<CT, CT>;

struct pgm_verif_access {};

#ifndef MAXOUT
#define MAXOUT 8
#endif
// pts: n pairs (x,y).  q: query point / box corners (min.x, min.y, max.x, max.y).
// mode 0: contains(q0,q1) -> out[0].   mode 1: range(min,max) iterated to end(): out[0] = number of points produced,
// out[1..] = produced points (x,y pairs, at most MAXOUT).  Returns rc: 0 ok, 1 invalid_argument, 2 logic_error, 3 runtime_error.
extern "C" __attribute__((noinline)) int u_md(const CT *pts, size_t n, const CT *q, int mode, size_t *out) {
    try {
        P2 tmp[MAXPTS];
        for (size_t i = 0; i < n; ++i) tmp[i] = P2(pts[2 * i], pts[2 * i + 1]);
        MD idx(tmp, tmp + n);
        if (mode == 0) {
            out[0] = idx.contains(P2(q[0], q[1])) ? 1 : 0;
            return 0;
        }
        size_t c = 0;
        for (auto it = idx.range(P2(q[0], q[1]), P2(q[2], q[3])); it != idx.end(); ++it) {
            if (c < MAXOUT) { out[1 + 2 * c] = std::get<0>(*it); out[2 + 2 * c] = std::get<1>(*it); }
            ++c;
            if (c > 4 * MAXOUT) return 9; // non-termination guard for the native builds
        }
        out[0] = c;
        return 0;
    } catch (const std::invalid_argument &) { return 1; }
      catch (const std::logic_error &) { return 2; }
      catch (const std::runtime_error &) { return 3; }
}
