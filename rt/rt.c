#include "rt.h"
#include <stdarg.h>
int rt_exc_pending, rt_exc_type; void *rt_exc_obj;
#ifndef __CPROVER__
int rt_assert_failed;
#endif
static int parent(int t){ switch(t){
  case RT_TI__ZTISt16invalid_argument: case RT_TI__ZTISt12length_error: case RT_TI__ZTISt12out_of_range: return RT_TI__ZTISt11logic_error;
  case RT_TI__ZTISt14overflow_error: return RT_TI__ZTISt13runtime_error;
  case RT_TI__ZTISt20bad_array_new_length: return RT_TI__ZTISt9bad_alloc;
  case RT_TI__ZTISt11logic_error: case RT_TI__ZTISt13runtime_error: case RT_TI__ZTISt9bad_alloc: return RT_TI__ZTISt9exception;
  default: return RT_TI_NONE; } }
int rt_exc_isa(int t, int c){ if(c==RT_TI_ALL) return 1; for(int i=0;i<4 && t!=RT_TI_NONE;i++){ if(t==c) return 1; t=parent(t);} return 0; }
int rt_exc_sel(int cleanup, int n, ...){ va_list ap; va_start(ap,n); int r=0; for(int i=0;i<n;i++){ int c=va_arg(ap,int); if(!r && rt_exc_isa(rt_exc_type,c)) r=c; } va_end(ap); return r; }
void rt_memcpy(void*d,const void*s,unsigned long n){ unsigned char*dd=d; const unsigned char*ss=s; for(unsigned long i=0;i<n;i++) dd[i]=ss[i]; }
void rt_memmove(void*d,const void*s,unsigned long n){ unsigned char*dd=d; const unsigned char*ss=s; if((unsigned long)dd<(unsigned long)ss) for(unsigned long i=0;i<n;i++) dd[i]=ss[i]; else for(unsigned long i=n;i>0;i--) dd[i-1]=ss[i-1]; }
void rt_memset(void*d,unsigned char v,unsigned long n){ unsigned char*dd=d; for(unsigned long i=0;i<n;i++) dd[i]=v; }
/* ---- stubs for the libstdc++ / C++ ABI externals (names as mangled by ll2c) ---- */
void *F__Znwm(unsigned long n){ void*p=malloc(n?n:1);
#ifdef __CPROVER__
  __CPROVER_assume(p!=0);
#endif
  RT_FRAME_NOTE_ALLOC(p);
  return p; }
void F__ZdlPv(void*p){ free(p); }
unsigned long F_strlen(unsigned char*s){ unsigned long n=0; while(s[n]) n++; return n; }
unsigned char *F___cxa_allocate_exception(unsigned long n){ return malloc(n?n:1); }
void F___cxa_free_exception(unsigned char*p){ free(p); }
static int ti_of(void*ti);
void F___cxa_throw(unsigned char*obj, unsigned char*ti, unsigned char*dtor){ rt_exc_pending=1; rt_exc_obj=obj; rt_exc_type=ti_of(ti); }
unsigned char *F___cxa_begin_catch(unsigned char*p){ rt_exc_pending=0; return p; }
void F___cxa_end_catch(void){ }
void F___cxa_rethrow(void){ rt_exc_pending=1; }
void F__ZSt9terminatev(void){ RT_TRAP(); }
void F__ZSt17__throw_bad_allocv(void){ rt_exc_pending=1; rt_exc_type=RT_TI__ZTISt9bad_alloc; }
void F__ZSt28__throw_bad_array_new_lengthv(void){ rt_exc_pending=1; rt_exc_type=RT_TI__ZTISt20bad_array_new_length; }
void F__ZSt20__throw_length_errorPKc(unsigned char*m){ rt_exc_pending=1; rt_exc_type=RT_TI__ZTISt12length_error; }
/* typeinfo objects referenced by landingpads / __cxa_throw: identity is all that matters */
unsigned char *g__ZTISt16invalid_argument, *g__ZTISt11logic_error, *g__ZTISt14overflow_error, *g__ZTISt12length_error, *g__ZTISt13runtime_error;
static int ti_of(void*ti){
  if(ti==(void*)&g__ZTISt16invalid_argument) return RT_TI__ZTISt16invalid_argument;
  if(ti==(void*)&g__ZTISt11logic_error) return RT_TI__ZTISt11logic_error;
  if(ti==(void*)&g__ZTISt14overflow_error) return RT_TI__ZTISt14overflow_error;
  if(ti==(void*)&g__ZTISt12length_error) return RT_TI__ZTISt12length_error;
  if(ti==(void*)&g__ZTISt13runtime_error) return RT_TI__ZTISt13runtime_error;
  return RT_TI__ZTISt9exception; }
/* externals whose bodies live in libstdc++.so: message construction is not part of any property -> empty bodies */
#include "rt.h"
/* libstdc++ (cxx11 ABI) basic_string<char>: the three out-of-line members the inlined header code of the sentinel /
   coordinate-width messages calls.  Implemented faithfully on the ABI layout {char*; size_t; union{char[16]; size_t cap}} so that
   the inlined header code that follows (which reads _M_p/_M_string_length) sees a valid string. */
static void rt_str_set(struct rt_string *s, unsigned char *tmp, unsigned long n) {
  unsigned long cap = (s->p == s->u.buf) ? 15UL : s->u.cap;
  if (n <= cap) { for (unsigned long i = 0; i < n; i++) s->p[i] = tmp[i]; free(tmp); }
  else { if (s->p != s->u.buf) free(s->p); s->p = tmp; s->u.cap = n; }
  s->len = n; s->p[n] = 0;
}
void F__ZNSt7__cxx1112basic_stringIcSt11char_traitsIcESaIcEE12_M_constructEmc(void *s_, unsigned long n, unsigned char c) {
  struct rt_string *s = s_;
  if (n > 15) { s->p = malloc(n + 1); RT_ASSUME(s->p != 0); s->u.cap = n; } else s->p = s->u.buf;
  for (unsigned long i = 0; i < n; i++) s->p[i] = c;
  s->len = n; s->p[n] = 0;
}
void *F__ZNSt7__cxx1112basic_stringIcSt11char_traitsIcESaIcEE10_M_replaceEmmPKcm(void *s_, unsigned long pos, unsigned long len1, unsigned char *str, unsigned long len2) {
  struct rt_string *s = s_; unsigned long n = s->len - len1 + len2, k = 0;
  unsigned char *tmp = malloc(n + 1); RT_ASSUME(tmp != 0);
  for (unsigned long i = 0; i < pos; i++) tmp[k++] = s->p[i];
  for (unsigned long i = 0; i < len2; i++) tmp[k++] = str[i];
  for (unsigned long i = pos + len1; i < s->len; i++) tmp[k++] = s->p[i];
  rt_str_set(s, tmp, n); return s;
}
void *F__ZNSt7__cxx1112basic_stringIcSt11char_traitsIcESaIcEE9_M_appendEPKcm(void *s_, unsigned char *str, unsigned long n2) {
  struct rt_string *s = s_;
  return F__ZNSt7__cxx1112basic_stringIcSt11char_traitsIcESaIcEE10_M_replaceEmmPKcm(s, s->len, 0, str, n2);
}
/* assert() in the source under test */
void F___assert_fail(unsigned char *expr, unsigned char *file, unsigned int line, unsigned char *func) {
#ifdef __CPROVER__
  __CPROVER_assert(0, "assert() in the code under test holds");
  __CPROVER_assume(0);
#else
  abort();
#endif
}

/* C library / C++ ABI pieces used by third-party code on encoded paths (sdsl::int_vector storage, function-local statics) */
void *F_realloc(void *p, unsigned long n) { void *q = realloc(p, n ? n : 1); RT_ASSUME(q != 0); return q; }
void F_free(void *p) { free(p); }
unsigned int F___cxa_guard_acquire(unsigned long *g) { return *(unsigned char *) g == 0; }
void F___cxa_guard_release(unsigned long *g) { *(unsigned char *) g = 1; }
unsigned int F___cxa_atexit(void *f, void *a, void *d) { return 0; }
unsigned char g___dso_handle;
unsigned char *g__ZTISt9bad_alloc, *g__ZTISt9exception, *g__ZTISt12out_of_range, *g__ZTISt12system_error, *g__ZTISt12domain_error, *g__ZTISt11range_error, *g__ZTISt20bad_array_new_length;

void *F__Znam(unsigned long n) { void *p = malloc(n ? n : 1); RT_ASSUME(p != 0); RT_FRAME_NOTE_ALLOC(p); return p; }
void F__ZdaPv(void *p) { free(p); }
/* log2 for the Elias-Fano low-width heuristic round(max(log2(u*ln2/m),1)): 16 fractional bits by repeated squaring */
double F_log2(double x) {
  if (!(x > 0)) return -1e300;
  int e = 0;
  for (int i = 0; i < 70 && x >= 2; i++) { x /= 2; e++; }
  for (int i = 0; i < 70 && x < 1; i++) { x *= 2; e--; }
  double r = 0, f = 0.5;
  for (int i = 0; i < 16; i++) { x = x * x; if (x >= 2) { x /= 2; r += f; } f /= 2; }
  return e + r;
}
double F_log(double x) { return F_log2(x) * 0.6931471805599453; }
void F___cxa_pure_virtual(void) { RT_TRAP(); }

/* C16 frame registration (see rt.h) */
int rt_frame_on; const void *rt_frame_obj[4]; const void *rt_frame_fresh[24]; unsigned rt_frame_nfresh;
void F_verif_frame_begin(unsigned char *a, unsigned char *b, unsigned char *c, unsigned char *d) { rt_frame_obj[0] = a; rt_frame_obj[1] = b; rt_frame_obj[2] = c; rt_frame_obj[3] = d; rt_frame_nfresh = 0; rt_frame_on = 1; }
void F_verif_frame_end(void) { rt_frame_on = 0; }
#ifdef __CPROVER__
void rt_frame_note(const void *p) {
  if (!rt_frame_on) return;
  __CPROVER_assert(rt_frame_nfresh < 24, "BOUND: more than 24 allocations during a framed query");
  if (rt_frame_nfresh < 24) rt_frame_fresh[rt_frame_nfresh++] = p;
}
#endif
