/* prototype runtime for translated IR: builds under CBMC (symbolic) and gcc (native differential run) */
#ifndef RT_H
#define RT_H
#include <stdlib.h>
#include <string.h>
#ifdef __CPROVER__
typedef __CPROVER_floatbv[79][63] fp80_t;      /* x87 extended: 15-bit exponent, 64-bit significand (63 stored) */
#define RT_UNREACHABLE() __CPROVER_assert(0, "llvm unreachable reached")
#define RT_LLVM_ASSUME(c) __CPROVER_assert((c), "llvm.assume holds")
#define RT_TRAP() __CPROVER_assert(0, "llvm.trap")
#define RT_ASSERT(c, msg) __CPROVER_assert((c), msg)
#define RT_ASSUME(c) __CPROVER_assume(c)
#else
#include <assert.h>
typedef long double fp80_t;
#define RT_UNREACHABLE() abort()
#define RT_LLVM_ASSUME(c) assert(c)
#define RT_TRAP() abort()
extern int rt_assert_failed;
#define RT_ASSUME(c) do { if (!(c)) abort(); } while (0)
#define RT_ASSERT(c, msg) do { if (!(c)) rt_assert_failed++; } while (0)
#endif
/* C16 frame: around a const query the wrapper registers up to four non-heap objects the container owns (verif_frame_begin); every heap object
   that exists at that moment belongs to the frame too.  Every store of the translated code in between is asserted to hit neither (a data race
   needs a write; a same-value store is a write the byte snapshot cannot see).  Heap objects allocated while the frame is on may be written. */
extern int rt_frame_on; extern const void *rt_frame_obj[4]; extern const void *rt_frame_fresh[24]; extern unsigned rt_frame_nfresh;
#ifdef __CPROVER__
#define RT_FRAME_HIT(p, i) (rt_frame_obj[i] != 0 && __CPROVER_same_object((const void *)(p), rt_frame_obj[i]))
#define RT_FRAME_FRESH1(p, i) ((i) < rt_frame_nfresh && __CPROVER_same_object((const void *)(p), rt_frame_fresh[i]))
#define RT_FRAME_FRESH(p) (RT_FRAME_FRESH1(p, 0) || RT_FRAME_FRESH1(p, 1) || RT_FRAME_FRESH1(p, 2) || RT_FRAME_FRESH1(p, 3) || RT_FRAME_FRESH1(p, 4) || RT_FRAME_FRESH1(p, 5) || RT_FRAME_FRESH1(p, 6) || RT_FRAME_FRESH1(p, 7) || RT_FRAME_FRESH1(p, 8) || RT_FRAME_FRESH1(p, 9) || RT_FRAME_FRESH1(p, 10) || RT_FRAME_FRESH1(p, 11) || RT_FRAME_FRESH1(p, 12) || RT_FRAME_FRESH1(p, 13) || RT_FRAME_FRESH1(p, 14) || RT_FRAME_FRESH1(p, 15) || RT_FRAME_FRESH1(p, 16) || RT_FRAME_FRESH1(p, 17) || RT_FRAME_FRESH1(p, 18) || RT_FRAME_FRESH1(p, 19) || RT_FRAME_FRESH1(p, 20) || RT_FRAME_FRESH1(p, 21) || RT_FRAME_FRESH1(p, 22) || RT_FRAME_FRESH1(p, 23))
/* (expression macros, no do-while: CBMC counts a do { } while (0) as a loop, one per store) */
#define RT_FRAME_STORE(p) ((void)(rt_frame_on ? (__CPROVER_assert(!(RT_FRAME_HIT(p, 0) || RT_FRAME_HIT(p, 1) || RT_FRAME_HIT(p, 2) || RT_FRAME_HIT(p, 3)) && (!__CPROVER_DYNAMIC_OBJECT((const void *)(p)) || RT_FRAME_FRESH(p)), "PROP: C16 no store into the storage owned by the container during a const query (a write is what a data race needs)"), 0) : 0))
void rt_frame_note(const void *p);
#define RT_FRAME_NOTE_ALLOC(p) rt_frame_note(p)
#else
#define RT_FRAME_STORE(p) ((void)0)
#define RT_FRAME_NOTE_ALLOC(p) ((void)0)
#endif
static inline fp80_t FP80_POW2(int e){ fp80_t r=1; while(e>0){r*=2;e--;} while(e<0){r/=2;e++;} return r; }
/* C++ allows nullptr - nullptr and comparing equal pointers of any provenance; keep CBMC's same-object checks for the rest */
#define RT_PTRDIFF(p, q) (((char*)(p) == (char*)(q)) ? 0L : (long)((char*)(p) - (char*)(q)))
#ifdef __CPROVER__
/* relational pointer comparison: compared as addresses (no fatal built-in check); a pointer formed beyond one-past-the-end of its
   object is standard-level UB that no sanitizer confirms - it is recorded as a non-fatal UBNOTE, never as a violation */
#define RT_UBNOTE(p) (__CPROVER_assert((unsigned long)__CPROVER_POINTER_OFFSET(p) <= (unsigned long)__CPROVER_OBJECT_SIZE(p), "UBNOTE: relational comparison uses a pointer formed beyond one-past-the-end of its object"), 0)
#define RT_PTRREL(p, op, q, eq) (RT_UBNOTE(p), RT_UBNOTE(q), ((unsigned long)(char*)(p) op (unsigned long)(char*)(q)))
#else
#define RT_PTRREL(p, op, q, eq) ((unsigned long)(char*)(p) op (unsigned long)(char*)(q))
#endif
/* checked narrowing helpers: does the W-bit value v, read as signed, fit B signed bits? */
#define RT_SFITS64(v, B) ((unsigned long)((unsigned long)(v) + (1UL << ((B) - 1))) < (1UL << (B)))
#define RT_SFITS128(v, B) ((unsigned __int128)((unsigned __int128)(v) + (((unsigned __int128)1) << ((B) - 1))) < (((unsigned __int128)1) << (B)))
#define RT_SNEG64(v) ((long)(v) < 0)
#define RT_SNEG128(v) ((__int128)(v) < 0)
#define BITCAST(dt, st, v) ({ union { st a; dt b; } u_; u_.a = (v); u_.b; })

struct rt_string { unsigned char *p; unsigned long len; union { unsigned char buf[16]; unsigned long cap; } u; };
/* ---- exceptions lowered to a pending flag + type id ---- */
enum { RT_TI_NONE=0, RT_TI_ALL=1,
       RT_TI__ZTISt9exception, RT_TI__ZTISt11logic_error, RT_TI__ZTISt16invalid_argument, RT_TI__ZTISt12length_error,
       RT_TI__ZTISt12out_of_range, RT_TI__ZTISt13runtime_error, RT_TI__ZTISt14overflow_error, RT_TI__ZTISt9bad_alloc,
       RT_TI__ZTISt20bad_array_new_length };
extern int rt_exc_pending; extern int rt_exc_type; extern void *rt_exc_obj;
int rt_exc_isa(int thrown, int caught);
int rt_exc_sel(int cleanup, int n, ...);
void rt_memcpy(void*, const void*, unsigned long); void rt_memmove(void*, const void*, unsigned long); void rt_memset(void*, unsigned char, unsigned long);
/* ---- bit intrinsics ---- */
static inline unsigned long rt_ctlz64(unsigned long x) { return x ? (unsigned long) __builtin_clzll(x) : 64UL; }
static inline unsigned int rt_ctlz32(unsigned int x) { return x ? (unsigned int) __builtin_clz(x) : 32U; }
static inline unsigned long rt_cttz64(unsigned long x) { return x ? (unsigned long) __builtin_ctzll(x) : 64UL; }
static inline unsigned int rt_cttz32(unsigned int x) { return x ? (unsigned int) __builtin_ctz(x) : 32U; }
static inline unsigned long rt_ctpop64(unsigned long x) { return (unsigned long) __builtin_popcountll(x); }
static inline unsigned int rt_ctpop32(unsigned int x) { return (unsigned int) __builtin_popcount(x); }
static inline unsigned char rt_ctpop8(unsigned char x) { return (unsigned char) __builtin_popcount(x); }
static inline unsigned short rt_ctpop16(unsigned short x) { return (unsigned short) __builtin_popcount(x); }
static inline unsigned char rt_ctlz8(unsigned char x) { return x ? (unsigned char) (__builtin_clz(x) - 24) : 8; }
static inline unsigned short rt_ctlz16(unsigned short x) { return x ? (unsigned short) (__builtin_clz(x) - 16) : 16; }
static inline unsigned char rt_cttz8(unsigned char x) { return x ? (unsigned char) __builtin_ctz(x) : 8; }
static inline unsigned short rt_cttz16(unsigned short x) { return x ? (unsigned short) __builtin_ctz(x) : 16; }
static inline unsigned long rt_pdep64(unsigned long src, unsigned long mask) {
  unsigned long r = 0; int k = 0;
  for (int i = 0; i < 64; i++) if ((mask >> i) & 1) { if ((src >> k) & 1) r |= 1UL << i; k++; }
  return r; }
static inline unsigned long rt_pext64(unsigned long src, unsigned long mask) {
  unsigned long r = 0; int k = 0;
  for (int i = 0; i < 64; i++) if ((mask >> i) & 1) { if ((src >> i) & 1) r |= 1UL << k; k++; }
  return r; }
static inline unsigned int rt_pdep32(unsigned int s, unsigned int m) { return (unsigned int) rt_pdep64(s, m); }
static inline unsigned int rt_pext32(unsigned int s, unsigned int m) { return (unsigned int) rt_pext64(s, m); }
static inline unsigned long rt_fshl64(unsigned long a, unsigned long b, unsigned long c) { c &= 63; return c ? (a << c) | (b >> (64 - c)) : a; }
static inline unsigned long rt_fshr64(unsigned long a, unsigned long b, unsigned long c) { c &= 63; return c ? (a << (64 - c)) | (b >> c) : b; }
static inline unsigned int rt_fshl32(unsigned int a, unsigned int b, unsigned int c) { c &= 31; return c ? (a << c) | (b >> (32 - c)) : a; }
static inline unsigned int rt_fshr32(unsigned int a, unsigned int b, unsigned int c) { c &= 31; return c ? (a << (32 - c)) | (b >> c) : b; }
#include <math.h>
#define rt_floor_f64(x) floor(x)
#define rt_ceil_f64(x) ceil(x)
#define rt_round_f64(x) round(x)
#define rt_trunc_f64(x) trunc(x)
#define rt_fabs_f64(x) fabs(x)
#define rt_floor_f32(x) floorf(x)
#define rt_ceil_f32(x) ceilf(x)
#define rt_round_f32(x) roundf(x)
#define rt_fabs_f32(x) fabsf(x)
#ifdef __CPROVER__
#define rt_round_f80(x) ((fp80_t)round((double)(x)))   /* callers round small magnitudes (intercepts, widths) */
#define rt_fabs_f80(x) ((x) < 0 ? -(x) : (x))
#else
#define rt_round_f80(x) roundl(x)
#define rt_fabs_f80(x) fabsl(x)
#endif
#endif
