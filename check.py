#!/usr/bin/env python3
"""Driver: decides one property by bounded symbolic checking of the real PGM-index code.

  ./check.py <PROPERTY> [--tier quick|thorough] [--only JOB-REGEX] [--keep]
  ./check.py --replay <replay-file>

Per job (= unit wrapper x harness x configuration), regenerated from /repo's working tree on every run:
  clang++ -O1 -emit-llvm (real headers, model containers) -> ll2c (IR -> C) -> {gcc twin, cbmc};  g++ real wrapper
  differential run twin vs real  ->  cbmc (all properties + reachability witness)  ->  replay of counterexamples on real
Exit 0: property held on everything explored; 1: reproduced violation (VIOLATION line); 2: inconclusive (never success).
"""
import argparse, concurrent.futures as cf, hashlib, json, os, re, resource, shutil, subprocess, sys, time

ROOT = os.path.dirname(os.path.abspath(__file__))
REPO = os.environ.get('VERIF_REPO', '/repo')
TAG = os.environ.get('VERIF_TAG', '')   # seeded-change runs: separate build/evidence directories, /repo untouched
sys.path.insert(0, os.path.join(ROOT, 'tools'))
import ll2c  # noqa: E402
import threading
LL2C_LOCK = threading.Lock()
from jobs import JOBS, PROPS  # noqa: E402

GUARD = 'PGM_INDEX_VERIF'
CLANG = ['clang++-14', '-std=c++17', '-O1', '-fno-vectorize', '-fno-slp-vectorize', '-fno-unroll-loops', '-w',
         '-mbmi', '-mbmi2', '-DNDEBUG', '-D' + GUARD, '-DVERIF_MODEL', '-I' + os.path.join(ROOT, 'model'), '-I' + REPO + '/include',
         '-I' + REPO + '/c-interface', '-S', '-emit-llvm']
GXX = ['g++', '-std=c++17', '-O1', '-g', '-w', '-mbmi', '-mbmi2', '-DNDEBUG', '-D' + GUARD, '-I' + REPO + '/include', '-I' + REPO + '/c-interface',
       '-fsanitize=address', '-fsanitize=float-cast-overflow,bounds,shift,null', '-fno-sanitize-recover=all']
GCC_TWIN = ['gcc', '-O1', '-fno-strict-aliasing', '-fwrapv', '-w', '-DVERIF_TWIN', '-I' + os.path.join(ROOT, 'rt'),
            '-I' + os.path.join(ROOT, 'harness')]
CBMC_BASE = ['--object-bits', '10', '--no-pointer-primitive-check', '--unwinding-assertions', '--no-malloc-may-fail', '--drop-unused-functions', '--undefined-shift-check',
             '--signed-overflow-check', '--trace']
STUBS = [
    'operator new = malloc + assume non-NULL (allocation failure out of scope; --no-malloc-may-fail); operator delete = free',
    '__cxa_throw/begin_catch/end_catch/rethrow, landingpad, resume = pending flag + type id (fixed std::exception subclass table)',
    'std::logic_error / invalid_argument / overflow_error / runtime_error constructors and destructors = empty bodies (message text is not part of any property)',
    'basic_string::_M_construct(n,c) / _M_replace / _M_append = faithful C implementations on the cxx11 ABI layout (rt.c)',
    'std::vector -> fixed-capacity single-allocation model (model/verif_std.hpp); capacity overflow is an assertion failure',
    'std::set (DynamicPGMIndex::lower_bound only) -> fixed-capacity unsorted array model',
    'llvm.assume(c) = assertion, unreachable = assertion, fptoui/fptosi = assertion that the operand is in range',
    'pdep/pext/ctlz/cttz/ctpop = bit loops (rt.h)',
]


def sh(cmd, timeout=None, cwd=None, mem_gb=None, env=None):
    def lim():
        os.setsid()
        if mem_gb:
            b = int(mem_gb * (1 << 30)); resource.setrlimit(resource.RLIMIT_AS, (b, b))
    t0 = time.time()
    p = subprocess.Popen(cmd, stdout=subprocess.PIPE, stderr=subprocess.STDOUT, cwd=cwd, preexec_fn=lim, env=env)
    try:
        out, _ = p.communicate(timeout=timeout)
        return p.returncode, out.decode('utf-8', 'replace'), time.time() - t0
    except subprocess.TimeoutExpired:
        try: os.killpg(p.pid, 9)
        except Exception: pass
        p.communicate()
        return 'timeout', '', time.time() - t0


def defs_flags(defs):
    return ['-D%s=%s' % (k, v) if v is not None else '-D%s' % k for k, v in defs.items()]


class Inconclusive(Exception):
    pass


def build_job(job, wd):
    """IR, translation, twin, real.  Returns info dict."""
    os.makedirs(wd, exist_ok=True)
    info = {'job': job['name']}
    unit = os.path.join(ROOT, 'units', job['unit']); harness = os.path.join(ROOT, 'harness', job['harness'])
    dfl = defs_flags(job['defs'])
    ll = os.path.join(wd, 'unit.ll')
    rc, out, t = sh(CLANG + dfl + job.get('clang_extra', []) + [unit, '-o', ll], timeout=300)
    if rc != 0: raise Inconclusive('clang IR build failed: ' + out[-2000:])
    info['t_clang'] = round(t, 2)
    t0 = time.time()
    with LL2C_LOCK:
        try:
            ll2c.OPTS['narrow'] = job.get('narrow', 0); ll2c.OPTS['noop'] = job.get('noop', []); ll2c.OPTS['unreachable'] = job.get('unreachable', []); ll2c.OPTS['unreachable_def'] = job.get('unreachable_def', []); ll2c.OPTS['frame_stores'] = bool(job.get('frame_stores'))
            mod = ll2c.parse_module(open(ll).read())
            roots = job.get('roots') or [n for n in mod.forder if not re.match(r'@_Z|@__|@_GLOBAL', n)]
            csrc, ext = ll2c.translate(mod, roots)
            stats = dict(ll2c.translate.stats); funcs = list(ll2c.translate.functions)
        except Exception as e:
            raise Inconclusive('IR construct outside the translator whitelist: %s' % str(e)[:1500])
    open(os.path.join(wd, 'unit.c'), 'w').write(csrc)
    info['t_ll2c'] = round(time.time() - t0, 2)
    info['functions_encoded'] = [f[1:] for f in funcs]
    info['externals'] = [e[1:] for e in ext]
    info['ir_lines'] = csrc.count('\n')
    info['mem_lowering'] = stats
    # native twin
    twin = os.path.join(wd, 'twin')
    rc, out, t = sh(GCC_TWIN + dfl + [harness, os.path.join(ROOT, 'harness', 'native_main.c'), os.path.join(wd, 'unit.c'),
                                      os.path.join(ROOT, 'rt', 'rt.c'), '-lm', '-o', twin], timeout=300)
    if rc != 0: raise Inconclusive('twin build failed (missing runtime stub?): ' + out[-3000:])
    # real
    real = os.path.join(wd, 'real')
    real_defs = [d for d in dfl]
    rc, out, t = sh(GXX + real_defs + job.get('gxx_extra', []) + ['-c', unit, '-o', os.path.join(wd, 'real_unit.o')], timeout=600)
    if rc != 0: raise Inconclusive('g++ build of the real wrapper failed: ' + out[-2000:])
    rc, out, t2 = sh(['gcc', '-O1', '-g', '-w', '-I' + os.path.join(ROOT, 'harness')] + dfl + ['-c', harness, '-o', os.path.join(wd, 'h.o')], timeout=120)
    if rc != 0: raise Inconclusive('harness native build failed: ' + out[-2000:])
    rc, out, t3 = sh(['gcc', '-O1', '-g', '-w', '-c', os.path.join(ROOT, 'harness', 'native_main.c'), '-o', os.path.join(wd, 'm.o')], timeout=120)
    rc, out, t4 = sh(['g++', '-fsanitize=address', '-fsanitize=undefined', os.path.join(wd, 'h.o'), os.path.join(wd, 'm.o'), os.path.join(wd, 'real_unit.o')] + job.get('link_extra', []) + ['-o', real], timeout=300)
    if rc != 0: raise Inconclusive('real link failed: ' + out[-2000:])
    info['t_native_build'] = round(t + t2 + t3 + t4, 2)
    return info


ASAN_ENV = dict(os.environ, ASAN_OPTIONS='detect_leaks=0:abort_on_error=0:exitcode=66', UBSAN_OPTIONS='print_stacktrace=1:halt_on_error=1:exitcode=67')


def differential(job, wd, seed, count):
    """twin vs real on seeded random inputs inside the harness bounds; returns stats or raises."""
    res = {}
    rc1, o1, t1 = sh([os.path.join(wd, 'twin'), '--random', str(seed), str(count)], timeout=600)
    rc2, o2, t2 = sh([os.path.join(wd, 'real'), '--random', str(seed), str(count)], timeout=600, env=ASAN_ENV)
    l1 = o1.strip().split('\n'); l2 = o2.strip().split('\n')
    viol = [l for l in l2 if ' VIOLATED ' in l]
    crashed = rc2 != 0 or any('ERROR: AddressSanitizer' in l or 'runtime error:' in l or 'CRASH' in l for l in l2)
    if crashed:
        # the real build died (sanitizer report / signal) inside case number k: the twin, which is in step, names its inputs
        k = 0
        while k < len(l2) and l2[k].startswith('in=['): k += 1
        if k < len(l1) and l1[k].startswith('in=['):
            viol.append(l1[k].split(' out=')[0] + ' out=[] CRASH-IN-REAL-BUILD ' + ' | '.join(l.strip() for l in l2[k:k + 4])[:300])
        else:
            # the twin died on the same case (same code, e.g. SIGFPE): the real build's signal handler printed the inputs itself
            for l in l2[k:]:
                mc = re.search(r'CRASH signal=(\d+) (in=\[[^\]]*\])', l)
                if mc: viol.append(mc.group(2) + ' out=[] CRASH-IN-REAL-BUILD signal=' + mc.group(1)); break
        l2 = l2[:k]; l1 = l1[:k]
    res['real_violations'] = viol[:5]
    if crashed and not viol:
        raise Inconclusive('real build crashed in the differential run and the case could not be identified: ' + o2[-1500:])
    if rc1 != 0:
        raise Inconclusive('twin (translated C) crashed in the differential run: rc=%s %s' % (rc1, o1[-1500:]))
    same = diff = capped = 0; first = None
    for a, b in zip(l1, l2):
        if a.startswith('SUMMARY'): continue
        ia = a.split(' out=')[0]; ib = b.split(' out=')[0]
        if ia != ib:
            raise Inconclusive('differential streams out of step: %r vs %r' % (a[:200], b[:200]))
        if a.endswith('CAPPED'): capped += 1; continue
        if a == b: same += 1
        else:
            diff += 1
            if first is None: first = (a, b)
    res.update(cases_identical=same, cases_differ=diff, cases_beyond_model_capacity=capped, t=round(t1 + t2, 2))
    ins = []
    for a in o1.strip().split('\n'):
        m = re.match(r'in=\[([^\]]*)\] out=\[([^\]]*)\] (?!CAPPED)', a)
        if m and m.group(1): ins.append(([int(x) for x in m.group(1).split(',')], m.group(2)))
    res['_inputs'] = ins
    if len(l1) != len(l2) and not viol:
        raise Inconclusive('differential runs produced different numbers of cases (%d vs %d)' % (len(l1), len(l2)))
    if diff and not viol:
        raise Inconclusive('ENCODING MISMATCH twin vs real: %r vs %r' % first)
    if same == 0 and not viol and not crashed:
        raise Inconclusive('differential run accepted no case')
    return res


def loop_names(cfiles, dfl):
    rc, out, t = sh(['cbmc'] + cfiles + dfl + ['--show-loops'], timeout=300)
    return list(dict.fromkeys(re.findall(r'^Loop ([^\s:]+):', out, re.M)))


def profile_bounds(job, wd, inputs, cfiles, inc, dfl):
    """Loop-bound HINTS from a few concrete runs of the same harness under cbmc (no verdict is taken from them: every bound
    used later is checked by an unwinding assertion in the symbolic run and raised if it fails)."""
    # pick a spread of samples: distinct outputs first
    seen = {}; picks = []; rest = []
    want = job.get('profile_samples', 32)
    for vals, outs in inputs:
        if outs not in seen: seen[outs] = 1; picks.append(vals)
        elif vals not in rest: rest.append(vals)
    picks = (picks + rest)[:want]
    mx = {}
    def one(vals):
        cmd = ['cbmc'] + cfiles + inc + dfl + ['-DVERIF_FIXED=' + ','.join('%dULL' % v for v in vals), '--unwind', str(job.get('profile_unwind', 80)), '--no-malloc-may-fail', '--drop-unused-functions',
               '--no-pointer-check', '--no-bounds-check', '--no-div-by-zero-check', '--no-standard-checks', '--verbosity', '9', '--program-only'] + [a for a in job.get('cbmc_extra', []) if a != '--no-array-field-sensitivity']
        rc, out, t = sh(cmd, timeout=job.get('profile_timeout', 180), mem_gb=8)
        loc = {}
        if rc == 'timeout': return loc
        for m in re.finditer(r'Unwinding loop (\S+) iteration (\d+)', out):
            loc[m.group(1)] = max(loc.get(m.group(1), 0), int(m.group(2)))
        return loc
    with cf.ThreadPoolExecutor(max_workers=4) as ex:
        for loc in ex.map(one, picks):
            for k, v in loc.items(): mx[k] = max(mx.get(k, 0), v)
    return mx


PROP_RE = re.compile(r'^\[([^\]]+)\] (?:line (\d+) )?(.*): (SUCCESS|FAILURE|UNKNOWN)$')


def classify(name, desc):
    if 'WITNESS:' in desc: return 'WITNESS'
    if 'UBNOTE:' in desc: return 'UBNOTE'
    if 'NARROW:' in desc: return 'BOUND'
    if 'BOUND:' in desc or '.unwind.' in name or 'unwinding assertion' in desc: return 'BOUND'
    if 'recursion' in desc and 'unwinding' in desc: return 'BOUND'
    if 'PROP:' in desc: return 'PROP'
    return 'SAFETY'


def parse_cbmc(out):
    props = {}
    for ln in out.split('\n'):
        m = PROP_RE.match(ln.strip())
        if m: props[m.group(1)] = {'line': m.group(2), 'desc': m.group(3), 'status': m.group(4)}
    traces = {}
    for m in re.finditer(r'^Trace for ([^\n:]+):\n(.*?)(?=^Trace for |\Z|^\*\* )', out, re.M | re.S):
        vals = {}
        for a in re.finditer(r'verif_in\[(\d+)l?\]=(\d+)', m.group(2)):
            vals[int(a.group(1))] = int(a.group(2))
        traces[m.group(1)] = [vals.get(i, 0) for i in range(max(vals) + 1)] if vals else []
    return props, traces


def run_cbmc_once(job, wd, tier, cfiles, inc, dfl, bounds, names, tmo):
    us = ['%s:%d' % (nm, bounds[nm]) for nm in names if nm in bounds]
    cmd = ['cbmc'] + cfiles + inc + dfl + CBMC_BASE + ['--unwind', str(job.get('unwind', 1))]
    us += ['%s:%d' % (fn, b) for fn, b in job.get('recursion', [])]      # recursion depth bounds, stated per job and checked by the recursion unwinding assertion
    if us: cmd += ['--unwindset', ','.join(us)]
    solver = job.get('solver', 'cadical')
    if solver == 'kissat': cmd += ['--external-sat-solver', 'kissat']
    else: cmd += ['--sat-solver', solver]
    cmd += job.get('cbmc_extra', [])
    rc, out, t = sh(['/usr/bin/time', '-f', 'VERIF_RSS_KB=%M'] + cmd, timeout=tmo, mem_gb=job.get('mem_gb', 14))
    open(os.path.join(wd, 'cbmc.log'), 'w').write(out if isinstance(out, str) else '')
    res = {'cmd': ' '.join(c.replace(ROOT + '/', '') for c in cmd if not c.startswith('--unwindset') and ':' not in c[:200] or c.startswith('-')), 'wall_s': round(t, 1),
           'loops': len(names), 'unwind_default': job.get('unwind', 1), 'unwindset': {k: v for k, v in bounds.items()}, 'solver': solver}
    if rc == 'timeout':
        res['status'] = 'TIMEOUT'; return res
    m = re.search(r'VERIF_RSS_KB=(\d+)', out)
    if m: res['rss_mb'] = int(m.group(1)) // 1024
    props, traces = parse_cbmc(out)
    res['n_properties'] = len(props)
    if not props or ('VERIFICATION SUCCESSFUL' not in out and 'VERIFICATION FAILED' not in out):
        res['status'] = 'ERROR'; res['tail'] = '\n'.join(l for l in out.split('\n') if not re.search(r'differ between|definition in module|^(void|struct|unsigned|signed) ', l))[-1200:]; return res
    res['by_class'] = {}
    failed = []
    for nm, p in props.items():
        c = classify(nm, p['desc']); p['class'] = c
        d = res['by_class'].setdefault(c, {'SUCCESS': 0, 'FAILURE': 0, 'UNKNOWN': 0}); d[p['status']] += 1
        if p['status'] != 'SUCCESS': failed.append((nm, p))
    res['unknown'] = [(nm, p) for nm, p in failed if p['status'] == 'UNKNOWN']
    failed = [(nm, p) for nm, p in failed if p['status'] == 'FAILURE']
    res['failed'] = [(nm, p['class'], p['desc']) for nm, p in failed]
    res['traces'] = {nm: traces.get(nm) for nm, p in failed if p['class'] in ('PROP', 'SAFETY')}
    res['prop_descs'] = sorted(set(p['desc'] for p in props.values() if p['class'] == 'PROP'))
    res['witness_inputs'] = next((traces.get(nm) for nm, p in failed if p['class'] == 'WITNESS' and traces.get(nm)), None)
    res['status'] = 'DONE'
    return res


def run_cbmc(job, wd, tier, inputs):
    dfl = defs_flags(job['defs'])
    inc = ['-I' + os.path.join(ROOT, 'rt'), '-I' + os.path.join(ROOT, 'harness'), '-DWITNESS']
    cfiles = [os.path.join(ROOT, 'harness', job['harness']), os.path.join(wd, 'unit.c'), os.path.join(ROOT, 'rt', 'rt.c')]
    names = loop_names(cfiles + inc, dfl)
    t0 = time.time()
    # loop bounds that a previous PASSING run of this job established (committed under bounds/): a head start only -- every bound is
    # still checked by its unwinding assertion in this run and raised if it fails; a different loop set (changed code) ignores the cache
    cache_p = os.path.join(ROOT, 'bounds', job['name'] + '.json'); cache = {}
    try:
        cache = json.load(open(cache_p))
    except Exception: pass
    if cache and set(cache) == set(names) and not os.environ.get('VERIF_NO_BOUND_CACHE'):
        hints = {}; bounds = dict(cache)
    else:
        cache = {}
        hints = profile_bounds(job, wd, inputs, cfiles, inc, dfl)
        bounds = {nm: hints.get(nm, 0) + 1 + job.get('unwind_margin', 0) for nm in names}
    for nm in names:   # loops of the harness / oracle / runtime (not translated code): constant trip counts, give them a floor
        if not cache and not nm.startswith('F_') and nm not in hints: bounds[nm] = max(bounds[nm], job.get('harness_unwind', 12))   # never seen iterating in the profile runs
    for rx, b in job.get('unwind_rules', []):
        for nm in names:
            if re.search(rx, nm): bounds[nm] = max(bounds[nm], b)
    tmo = job['timeout'][tier] if isinstance(job.get('timeout'), dict) else job.get('timeout', 600)
    rounds = []
    deadline = time.time() + tmo      # the job's solver budget covers ALL refinement rounds together
    for rnd in range(job.get('refine_rounds', 8)):
        left = deadline - time.time()
        if left < 20:
            res = {'status': 'TIMEOUT', 'wall_s': round(tmo, 1), 'cmd': '', 'loops': len(names), 'unwindset': dict(bounds), 'failed': [], 'traces': {}, 'prop_descs': [], 'n_properties': 0}
            break
        res = run_cbmc_once(job, wd, tier, cfiles, inc, dfl, bounds, names, left)
        rounds.append({'wall_s': res['wall_s'], 'status': res['status'], 'rss_mb': res.get('rss_mb')})
        if res['status'] != 'DONE': break
        grow = []
        for nm, cls, desc in res['failed']:
            m = re.match(r'(.*)\.unwind\.(\d+)$', nm)
            if cls == 'BOUND' and m: grow.append('%s.%s' % (m.group(1), m.group(2)))
        if not grow: break
        for nm in grow: bounds[nm] = max(bounds.get(nm, 1) + 3, 2 * bounds.get(nm, 1))   # bound too small: reported by the unwinding assertion, raised, re-run
        res['refined'] = grow
    if res['status'] == 'DONE' and not any(f[1] == 'BOUND' for f in res['failed']) and not TAG:
        try:
            os.makedirs(os.path.join(ROOT, 'bounds'), exist_ok=True)
            json.dump(bounds, open(cache_p, 'w'), indent=0, sort_keys=True)
        except Exception: pass
    res['bounds_from_cache'] = bool(cache)
    res['rounds'] = rounds; res['t_profile_and_rounds'] = round(time.time() - t0, 1); res['bound_hints_from_concrete_runs'] = len(hints)
    return res


def replay(wd, vals, path):
    os.makedirs(os.path.dirname(path), exist_ok=True)
    open(path, 'w').write(''.join('%d\n' % v for v in vals))
    rc, out, t = sh([os.path.join(wd, 'real'), '--replay', path], timeout=120, env=ASAN_ENV)
    bad = (rc not in (0, 2)) or ' VIOLATED ' in out or 'ERROR: AddressSanitizer' in out or 'runtime error' in out or 'CRASH' in out
    return bad, rc, out


def load_known():
    kf = []
    p = os.path.join(ROOT, 'known_findings.txt')
    if os.path.exists(p):
        for ln in open(p):
            ln = ln.strip()
            if not ln or ln.startswith('#'): continue
            m = re.match(r'(finding|fixed): property=(\S+)\s+(.*)$', ln)
            if m: kf.append({'kind': m.group(1), 'property': m.group(2), 'rest': m.group(3)})
    return kf


def known_match(known, prop, job, desc, replay_out):
    """a 'finding:' entry matches a violation when its job= and assert= fields (regexes) match this violation"""
    for k in known:
        if k['kind'] != 'finding' or k['property'] != prop: continue
        f = dict(re.findall(r'(\w+)=("[^"]*"|\S+)', k['rest']))
        jrx = f.get('job', '.*').strip('"'); arx = f.get('assert', '.*').strip('"')
        if re.search(jrx, job) and re.search(arx, desc + ' ' + replay_out):
            return k
    return None


def do_job(prop, job, tier, seed, keep):
    wd = os.path.join(ROOT, 'build', TAG + prop, job['name'])
    shutil.rmtree(wd, ignore_errors=True)
    r = {'job': job['name'], 'defs': job['defs'], 'unit': job['unit'], 'harness': job['harness'], 'bounds': job.get('bounds', ''),
         'status': 'PASS', 'violations': [], 'notes': []}
    t0 = time.time()
    try:
        r['build'] = build_job(job, wd)
        r['differential'] = differential(job, wd, seed, job.get('diff_count', 400))
        for v in r['differential'].get('real_violations', [])[:2]:
            # a violation observed directly on the real build during the differential run
            m = re.match(r'.*in=\[([^\]]*)\]', v)
            vals = [int(x) for x in m.group(1).split(',')] if m and m.group(1) else []
            path = os.path.join(ROOT, 'replays', TAG, '%s-%s-diff-%s.txt' % (prop, job['name'], hashlib.sha1(str(vals).encode()).hexdigest()[:10]))
            bad, rc, out = replay(wd, vals, path)
            if bad: r['violations'].append({'source': 'differential run (random input, real build)', 'desc': v[-200:], 'replay': path, 'replay_out': out[-600:]})
        c = run_cbmc(job, wd, tier, r['differential'].pop('_inputs', [])); r['cbmc'] = c
        if c['status'] == 'TIMEOUT': raise Inconclusive('solver timeout after %ss (no verdict)' % c['wall_s'])
        if c['status'] == 'ERROR': raise Inconclusive('cbmc error / out of memory: ' + c.get('tail', ''))
        bound = [f for f in c['failed'] if f[1] == 'BOUND']
        if bound: raise Inconclusive('bound too small: ' + '; '.join('%s %s' % (f[0][-60:], f[2]) for f in bound[:4]))
        wit = [f for f in c['failed'] if f[1] == 'WITNESS']
        if not wit: raise Inconclusive('VACUOUS: the reachability witness at the end of the harness was not reachable')
        unrep = []
        ubn = [f for f in c['failed'] if f[1] == 'UBNOTE']
        if ubn: r['notes'].append({'standard_level_UB_not_confirmable_by_sanitizers': [(f[0][-70:], f[2]) for f in ubn[:6]]})
        for nm, cls, desc in c['failed']:
            if cls not in ('PROP', 'SAFETY'): continue
            vals = c['traces'].get(nm)
            if vals is None: unrep.append((nm, desc, 'no trace')); continue
            path = os.path.join(ROOT, 'replays', TAG, '%s-%s-%s.txt' % (prop, job['name'], hashlib.sha1((nm + str(vals)).encode()).hexdigest()[:10]))
            bad, rc, out = replay(wd, vals, path)
            if bad: r['violations'].append({'source': 'cbmc counterexample', 'cbmc_property': nm, 'class': cls, 'desc': desc, 'inputs': vals, 'replay': path, 'replay_out': out[-600:]})
            else: unrep.append((nm, desc, 'inputs %s do not reproduce on the real build: %s' % (vals, out.strip()[-200:])))
        unk = [nm for nm, p in c.get('unknown', [])]
        if unk and not r['violations']:
            raise Inconclusive('%d properties left UNKNOWN by cbmc (after a fatal built-in check failed) and no failure reproduced on the real build: %s; unreproduced: %s' % (len(unk), unk[:2], unrep[:2]))
        if unrep and not r['violations']:
            ubonly = all('pointer' in d and ('arithmetic' in n or 'pointer_arithmetic' in n) for n, d, _ in unrep)
            if ubonly: r['notes'].append({'unreproduced_pointer_arithmetic_only': unrep})
            else: raise Inconclusive('counterexample does not reproduce against the real code (encoding or stub wrong): ' + '; '.join('%s: %s -- %s' % u for u in unrep[:3]))
        if r['violations']: r['status'] = 'VIOLATION'
    except Inconclusive as e:
        r['status'] = 'INCONCLUSIVE'; r['reason'] = str(e)
    except Exception as e:      # a failure of the machinery itself (e.g. OSError from the tool invocation) is never a pass
        r['status'] = 'INCONCLUSIVE'; r['reason'] = 'driver error: %s: %s' % (type(e).__name__, str(e)[:300])
    r['wall_s'] = round(time.time() - t0, 1)
    if not keep and r['status'] == 'PASS':
        for f in ('twin', 'real', 'real_unit.o', 'h.o', 'm.o'):
            try: os.remove(os.path.join(wd, f))
            except OSError: pass
    return r


def main():
    ap = argparse.ArgumentParser()
    ap.add_argument('prop', nargs='?')
    ap.add_argument('--tier', default=os.environ.get('VERIF_TIER', 'quick'), choices=['quick', 'thorough'])
    ap.add_argument('--only'); ap.add_argument('--keep', action='store_true'); ap.add_argument('--replay')
    ap.add_argument('--workers', type=int, default=int(os.environ.get('VERIF_WORKERS', '12')))
    a = ap.parse_args()
    seed = int(os.environ.get('VERIF_SEED', '1'))
    if a.replay:
        m = re.match(r'(C\d+)-(.*)-(?:diff-)?[0-9a-f]{10}\.txt$', os.path.basename(a.replay))
        if not m: sys.exit('replay file name must be <prop>-<job>-<hash>.txt')
        prop, jn = m.group(1), m.group(2)
        job = [j for j in JOBS[prop] if j['name'] == jn][0]
        wd = os.path.join(ROOT, 'build', prop, jn + '.replay'); shutil.rmtree(wd, ignore_errors=True)
        build_job(job, wd)
        vals = [int(x) for x in open(a.replay).read().split() if x.isdigit()]
        bad, rc, out = replay(wd, vals, a.replay)
        print(out); print('REPRODUCED' if bad else 'not reproduced'); sys.exit(1 if bad else 0)
    prop = a.prop
    if prop not in JOBS: sys.exit('unknown property ' + str(prop))
    t0 = time.time()
    jobs = [j for j in JOBS[prop] if a.tier in j.get('tiers', ('quick', 'thorough'))]
    if a.only: jobs = [j for j in jobs if re.search(a.only, j['name'])]
    results = []
    if 'VERIF_WORKERS' not in os.environ and PROPS.get(a.prop, {}).get('workers'): a.workers = min(a.workers, PROPS[a.prop]['workers'])   # memory-heavy job sets run fewer at a time
    with cf.ThreadPoolExecutor(max_workers=max(1, min(a.workers, len(jobs)))) as ex:
        futs = {ex.submit(do_job, prop, j, a.tier, seed, a.keep): j for j in jobs}
        for f in cf.as_completed(futs):
            r = f.result(); results.append(r)
            c = r.get('cbmc', {})
            print('[%s] %-38s %-12s wall=%ss cbmc=%ss rss=%sMB props=%s %s' % (prop, r['job'], r['status'], r['wall_s'], c.get('wall_s'), c.get('rss_mb'), c.get('n_properties'), r.get('reason', '')[:300]), flush=True)
    results.sort(key=lambda r: r['job'])
    known = load_known()
    nviol = 0; lines = []; kf_lines = []
    for r in results:
        for v in r['violations']:
            k = known_match(known, prop, r['job'], v.get('desc', ''), v.get('replay_out', ''))
            if k: kf_lines.append('KNOWN-FINDING: property=%s %s' % (prop, k['rest'])); v['known'] = True
            else: nviol += 1; lines.append('VIOLATION property=%s replay=%s' % (prop, v['replay']))
    inconcl = [r for r in results if r['status'] == 'INCONCLUSIVE']
    done = [r for r in results if 'cbmc' in r and r['cbmc'].get('status') == 'DONE']
    nq = sum(r['cbmc']['n_properties'] for r in done)
    nontrivial = sum(1 for r in done if any(f[1] == 'WITNESS' for f in r['cbmc']['failed']))
    funcs = sorted(set(f for r in results if 'build' in r for f in r['build']['functions_encoded']))
    samples = []
    for r in done[:6]:
        samples.append({'job': r['job'], 'harness': r['harness'], 'defs': r['defs'], 'bounds': r['bounds'],
                        'property_assertions': r['cbmc']['prop_descs'], 'obligations': r['cbmc']['by_class'],
                        'cbmc': r['cbmc']['cmd'][:600], 'solver_wall_s': r['cbmc']['wall_s'],
                        'reachability_witness_inputs': r['cbmc'].get('witness_inputs'),
                        'note': 'the obligations above hold for EVERY input inside the bounds; reachability_witness_inputs is one concrete input vector (values drawn by IN(), in order) with which the solver reached the end of the harness'})
    ev = {
        'property_id': prop, 'tier': a.tier, 'seed': seed, 'level': PROPS[prop]['level'],
        'coverage': {
            'evaluations': nq, 'distinct_nontrivial': nontrivial,
            'rule': 'evaluations = assertions (property + CBMC memory/arithmetic safety + unwinding) discharged by the SAT solver over ALL inputs inside the '
                    'stated bounds, summed over jobs; a job (unit wrapper x harness x template configuration) counts as distinct and non-trivial '
                    'only if its reachability witness (assert(0) at the end of the harness) was shown reachable, i.e. the assumptions are satisfiable',
            'samples': samples,
            'explanation': PROPS[prop].get('explanation', ''),
            'technique': 'bounded symbolic execution of the real C++ (clang LLVM IR -> C -> CBMC/SAT), counterexamples replayed on the real build',
            'functions_encoded': funcs,
            'jobs': [{k: r.get(k) for k in ('job', 'status', 'reason', 'defs', 'bounds', 'wall_s', 'differential', 'notes')} | {
                'cbmc': {k: r['cbmc'].get(k) for k in ('wall_s', 'rss_mb', 'n_properties', 'by_class', 'unwind_default', 'unwindset', 'solver', 'loops', 'status', 'rounds', 'bound_hints_from_concrete_runs', 'bounds_from_cache')} if 'cbmc' in r else None,
                'translation': {k: r['build'].get(k) for k in ('ir_lines', 'mem_lowering', 't_clang', 't_ll2c', 'externals')} if 'build' in r else None}
                for r in results],
            'queries_discharged': nq, 'solver_time_s': round(sum(r['cbmc']['wall_s'] for r in done), 1),
            'differential_cases_identical': sum(r.get('differential', {}).get('cases_identical', 0) for r in results),
            'outside_the_claim': PROPS[prop].get('outside', []),
            'known_findings_reported': kf_lines,
        },
        'assumptions': STUBS + PROPS[prop].get('assumptions', []),
        'wall_s': round(time.time() - t0, 1), 'violations': nviol,
    }
    evdir = os.path.join(ROOT, 'evidence') if not (TAG or a.only) else os.path.join(ROOT, 'build', (TAG or 'partial_') + 'evidence')   # --only / seeded runs never touch the committed evidence
    os.makedirs(evdir, exist_ok=True)
    json.dump(ev, open(os.path.join(evdir, prop + '.json'), 'w'), indent=1)
    for l in kf_lines: print(l)
    for l in lines: print(l)
    for r in inconcl: print('INCONCLUSIVE property=%s job=%s reason=%s' % (prop, r['job'], r.get('reason', '')[:500]))
    print('[%s] tier=%s jobs=%d queries=%d nontrivial=%d violations=%d inconclusive=%d wall=%.0fs' % (prop, a.tier, len(results), nq, nontrivial, nviol, len(inconcl), time.time() - t0))
    if nviol: sys.exit(1)
    if inconcl or not done: sys.exit(2)
    sys.exit(0)


if __name__ == '__main__':
    main()
