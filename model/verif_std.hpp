// Model of the two libstdc++ containers the PGM-index headers use on their hot paths, for the symbolic build only.
//
// std::vector  ->  std::verif_vector : same interface subset, ONE allocation of a FIXED capacity (verif_cap<T>::value
//                  elements) made on first use, never reallocated.  Exceeding the capacity calls verif_cap_exceeded(),
//                  which the CBMC harness turns into a failed assertion (a too-small bound is reported, never silently
//                  truncated) and the native build turns into abort().
// std::set     ->  std::verif_set    : unsorted fixed-capacity array with emplace/find/end (all DynamicPGMIndex uses).
//
// The PGM headers are compiled UNMODIFIED against these through `#define vector verif_vector` placed after all standard
// headers have been included (their include guards keep the real <vector> out of reach of the macro).  What is lost
// and therefore OUTSIDE every claim made with this model: growth/reallocation behaviour of the real std::vector
// (iterator invalidation on growth, geometric capacity), allocator failure, the red-black tree of std::set.
// The differential step of every check runs the real headers with the REAL libstdc++ containers natively against the
// translation of this model build and requires identical observable results.
#pragma once
#include <algorithm>
#include <cassert>
#include <climits>
#include <cmath>
#include <cstddef>
#include <cstdint>
#include <cstring>
#include <fstream>
#include <iostream>
#include <initializer_list>
#include <iterator>
#include <limits>
#include <memory>
#include <new>
#include <numeric>
#include <set>
#include <stdexcept>
#include <string>
#include <tuple>
#include <type_traits>
#include <utility>
#include <vector>

#ifndef VERIF_VEC_CAP
#define VERIF_VEC_CAP 16
#endif
#ifndef VERIF_VECVEC_CAP
#define VERIF_VECVEC_CAP 32
#endif
#ifndef VERIF_SET_CAP
#define VERIF_SET_CAP 8
#endif

extern "C" void verif_cap_exceeded(void);

// One allocation site per element type, kept out of line on purpose: the IR->C translator replaces the body of every
// instantiation by `malloc(sizeof(T) * n)` so that CBMC creates a T[n]-typed object (field-precise reads/writes) instead
// of an untyped byte array.
template<class T> __attribute__((noinline)) T *verif_new_array(size_t n) { return static_cast<T *>(::operator new(n * sizeof(T))); }

namespace std {

template<class T> struct verif_cap { static constexpr size_t value = VERIF_VEC_CAP; };
// Element types for which reserve(n) on an empty vector is honoured EXACTLY (capacity == n, as libstdc++ does), so that a read
// of *end() is an out-of-bounds access for the model checker as it is for the real container.  Opt-in per wrapper.
template<class T> struct verif_exact_reserve { static constexpr bool value = false; };

template<class T, class A = allocator<T>>
class verif_vector {
    // Invariant: b_ always points to the vector's own CAP-element array (allocated eagerly by every constructor, so that
    // each vector object has exactly one possible backing object -- this keeps the pointer analysis of the model checker
    // precise); a moved-from vector gets a fresh array.
    T *b_;
    T *e_;
    size_t cap_;

    static constexpr size_t CAP = verif_cap<verif_vector>::value;

    void alloc() { b_ = verif_new_array<T>(CAP); e_ = b_; cap_ = CAP; }

    void ensure(size_t n) {
        if (n > cap_)
            verif_cap_exceeded();
    }

    void destroy_range(T *f, T *l) {
        if constexpr (!is_trivially_destructible_v<T>)
            for (; f != l; ++f)
                f->~T();
    }

public:
    using value_type = T;
    using allocator_type = A;
    using size_type = size_t;
    using difference_type = ptrdiff_t;
    using reference = T &;
    using const_reference = const T &;
    using pointer = T *;
    using const_pointer = const T *;
    using iterator = __gnu_cxx::__normal_iterator<T *, verif_vector>;
    using const_iterator = __gnu_cxx::__normal_iterator<const T *, verif_vector>;

    verif_vector() { alloc(); }

    explicit verif_vector(size_t n) {
        alloc();
        ensure(n);
        for (size_t i = 0; i < n; ++i)
            ::new((void *) (b_ + i)) T();
        e_ = b_ + n;
    }

    verif_vector(size_t n, const T &v) {
        alloc();
        ensure(n);
        for (size_t i = 0; i < n; ++i)
            ::new((void *) (b_ + i)) T(v);
        e_ = b_ + n;
    }

    verif_vector(initializer_list<T> il) {
        alloc();
        ensure(il.size());
        for (auto &x: il)
            ::new((void *) (e_++)) T(x);
    }

    template<class It, class = typename iterator_traits<It>::iterator_category>
    verif_vector(It f, It l) {
        alloc();
        for (; f != l; ++f)
            emplace_back(*f);
    }

    verif_vector(const verif_vector &o) {
        alloc();
        for (const T *p = o.b_; p != o.e_; ++p)
            ::new((void *) (e_++)) T(*p);
    }

    verif_vector(verif_vector &&o) noexcept: b_(o.b_), e_(o.e_), cap_(o.cap_) { o.alloc(); }

    ~verif_vector() {
        destroy_range(b_, e_);
        ::operator delete(b_);
    }

    verif_vector &operator=(const verif_vector &o) {
        if (this != &o) {
            clear();
            for (const T *p = o.b_; p != o.e_; ++p)
                ::new((void *) (e_++)) T(*p);
        }
        return *this;
    }

    verif_vector &operator=(verif_vector &&o) noexcept {
        if (this != &o) {
            destroy_range(b_, e_);
            ::operator delete(b_);
            b_ = o.b_;
            e_ = o.e_;
            cap_ = o.cap_;
            o.alloc();
        }
        return *this;
    }

    iterator begin() noexcept { return iterator(b_); }
    iterator end() noexcept { return iterator(e_); }
    const_iterator begin() const noexcept { return const_iterator(b_); }
    const_iterator end() const noexcept { return const_iterator(e_); }
    const_iterator cbegin() const noexcept { return const_iterator(b_); }
    const_iterator cend() const noexcept { return const_iterator(e_); }

    size_t size() const noexcept { return size_t(e_ - b_); }
    size_t capacity() const noexcept { return cap_; }
    bool empty() const noexcept { return b_ == e_; }
    T *data() noexcept { return b_; }
    const T *data() const noexcept { return b_; }

    T &operator[](size_t i) noexcept { return b_[i]; }
    const T &operator[](size_t i) const noexcept { return b_[i]; }
    T &front() noexcept { return *b_; }
    const T &front() const noexcept { return *b_; }
    T &back() noexcept { return *(e_ - 1); }
    const T &back() const noexcept { return *(e_ - 1); }

    void reserve(size_t n) {
        if constexpr (verif_exact_reserve<T>::value) {
            if (b_ == e_ && n > 0 && n <= CAP) {
                ::operator delete(b_);
                b_ = verif_new_array<T>(n);
                e_ = b_;
                cap_ = n;
            }
        }
    }
    void shrink_to_fit() {}

    void clear() noexcept {
        destroy_range(b_, e_);
        e_ = b_;
    }

    void resize(size_t n) {
        size_t s = size();
        if (n < s) {
            destroy_range(b_ + n, e_);
            e_ = b_ + n;
        } else if (n > s) {
            ensure(n);
            for (size_t i = s; i < n; ++i)
                ::new((void *) (b_ + i)) T();
            e_ = b_ + n;
        }
    }

    template<class... Args>
    T &emplace_back(Args &&... args) {
        ensure(size() + 1);
        ::new((void *) e_) T(std::forward<Args>(args)...);
        return *e_++;
    }

    void push_back(const T &v) { emplace_back(v); }
    void push_back(T &&v) { emplace_back(std::move(v)); }

    void pop_back() {
        --e_;
        destroy_range(e_, e_ + 1);
    }

    iterator insert(const_iterator pos, const T &v) {
        size_t i = size_t(pos.base() - b_);
        T copy(v);
        ensure(size() + 1);
        if (b_ + i == e_) {
            ::new((void *) e_) T(std::move(copy));
        } else {
            ::new((void *) e_) T(std::move(*(e_ - 1)));
            for (T *p = e_ - 1; p != b_ + i; --p)
                *p = std::move(*(p - 1));
            b_[i] = std::move(copy);
        }
        ++e_;
        return iterator(b_ + i);
    }

    iterator erase(const_iterator pos) { return erase(pos, pos + 1); }

    iterator erase(const_iterator first, const_iterator last) {
        size_t i = size_t(first.base() - b_), j = size_t(last.base() - b_), n = size();
        for (size_t k = j; k < n; ++k)
            b_[i + (k - j)] = std::move(b_[k]);
        destroy_range(b_ + (n - (j - i)), e_);
        e_ = b_ + (n - (j - i));
        return iterator(b_ + i);
    }

    template<class It, class = typename iterator_traits<It>::iterator_category>
    void assign(It f, It l) {
        clear();
        for (; f != l; ++f)
            emplace_back(*f);
    }

    void assign(size_t n, const T &v) {
        clear();
        for (size_t i = 0; i < n; ++i)
            emplace_back(v);
    }

    template<class... Args>
    iterator emplace(const_iterator pos, Args &&... args) { return insert(pos, T(std::forward<Args>(args)...)); }

    T &at(size_t i) {
        if (i >= size())
            throw out_of_range("verif_vector::at");
        return b_[i];
    }
    const T &at(size_t i) const {
        if (i >= size())
            throw out_of_range("verif_vector::at");
        return b_[i];
    }

    reverse_iterator<iterator> rbegin() noexcept { return reverse_iterator<iterator>(end()); }
    reverse_iterator<iterator> rend() noexcept { return reverse_iterator<iterator>(begin()); }
    reverse_iterator<const_iterator> rbegin() const noexcept { return reverse_iterator<const_iterator>(end()); }
    reverse_iterator<const_iterator> rend() const noexcept { return reverse_iterator<const_iterator>(begin()); }

    void resize(size_t n, const T &v) {
        size_t s = size();
        if (n < s) {
            destroy_range(b_ + n, e_);
            e_ = b_ + n;
        } else {
            ensure(n);
            for (size_t i = s; i < n; ++i)
                ::new((void *) (b_ + i)) T(v);
            e_ = b_ + n;
        }
    }

    friend bool operator==(const verif_vector &a, const verif_vector &b) {
        if (a.size() != b.size()) return false;
        for (size_t i = 0; i < a.size(); ++i)
            if (!(a.b_[i] == b.b_[i])) return false;
        return true;
    }
    friend bool operator!=(const verif_vector &a, const verif_vector &b) { return !(a == b); }

    void swap(verif_vector &o) noexcept {
        std::swap(b_, o.b_);
        std::swap(e_, o.e_);
        std::swap(cap_, o.cap_);
    }
};

template<class U, class A>
struct verif_cap<verif_vector<verif_vector<U>, A>> { static constexpr size_t value = VERIF_VECVEC_CAP; };

template<class K, class C = less<K>, class A = allocator<K>>
class verif_set {
    K a_[VERIF_SET_CAP];      // kept sorted, so that iteration order is the real container's
    size_t n_ = 0;

    size_t lb(const K &k) const {
        size_t i = 0;
        while (i < n_ && C()(a_[i], k)) ++i;
        return i;
    }

public:
    using key_type = K;
    using value_type = K;
    using size_type = size_t;
    using iterator = const K *;
    using const_iterator = const K *;

    verif_set() {}

    iterator begin() const { return a_; }
    iterator end() const { return a_ + n_; }
    iterator cbegin() const { return a_; }
    iterator cend() const { return a_ + n_; }
    size_t size() const { return n_; }
    bool empty() const { return n_ == 0; }
    void clear() { n_ = 0; }

    iterator find(const K &k) const {
        size_t i = lb(k);
        return i < n_ && !C()(k, a_[i]) ? a_ + i : end();
    }
    size_t count(const K &k) const { return find(k) != end() ? 1 : 0; }
    iterator lower_bound(const K &k) const { return a_ + lb(k); }
    iterator upper_bound(const K &k) const {
        size_t i = lb(k);
        return a_ + (i < n_ && !C()(k, a_[i]) ? i + 1 : i);
    }

    pair<iterator, bool> insert(const K &k) {
        size_t i = lb(k);
        if (i < n_ && !C()(k, a_[i]))
            return {a_ + i, false};
        if (n_ >= VERIF_SET_CAP)
            verif_cap_exceeded();
        for (size_t j = n_; j > i; --j)
            a_[j] = a_[j - 1];
        a_[i] = k;
        ++n_;
        return {a_ + i, true};
    }

    template<class... Args>
    pair<iterator, bool> emplace(Args &&... args) { return insert(K(std::forward<Args>(args)...)); }

    size_t erase(const K &k) {
        size_t i = lb(k);
        if (i >= n_ || C()(k, a_[i]))
            return 0;
        for (size_t j = i + 1; j < n_; ++j)
            a_[j - 1] = a_[j];
        --n_;
        return 1;
    }
};

}

#define vector verif_vector
#ifdef VERIF_MODEL_SET
#define set verif_set
#endif
