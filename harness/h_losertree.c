/* C06 (kernel): internal::LoserTree<uint8_t> driven as Iterator::advance() drives it, for k = NSRC sources of 1..SEQMAX sorted keys:
 * everything is popped exactly once, in non-decreasing key order, and equal keys come out lowest source index (newest level) first. */
#include "harness.h"
unsigned int UNIT(u_losertree)(unsigned long k, unsigned char *seq, unsigned char *len, unsigned char *out, unsigned long *nout);
#ifndef KMAXSRC
#define KMAXSRC 4
#endif
VERIF_MAIN {
  unsigned char seq[KMAXSRC * SEQMAX], len[KMAXSRC], out[2 * KMAXSRC * SEQMAX + 2];
  unsigned long total = 0, nout = 0;
  for (int s = 0; s < KMAXSRC; s++) {
    len[s] = (unsigned char) IN(1, SEQMAX);
    for (int i = 0; i < SEQMAX; i++) seq[s * SEQMAX + i] = (unsigned char) IN(i ? seq[s * SEQMAX + i - 1] : 0, KEYMAX);   /* keys strictly below the numeric maximum */
    if (s < NSRC) total += len[s];
  }
  for (int i = 0; i < 2 * KMAXSRC * SEQMAX + 2; i++) out[i] = 0;
  unsigned int rc = UNIT(u_losertree)(NSRC, seq, len, out, &nout);
  OUT(rc); OUT(nout); for (int i = 0; i < 2 * KMAXSRC * SEQMAX; i++) OUT(out[i]);
  ASSERT(rc == 0 && nout == total, "C06 the tournament tree pops every element exactly once and then reports exhaustion");
  unsigned long taken[KMAXSRC];
  for (int s = 0; s < KMAXSRC; s++) taken[s] = 0;
  for (int i = 0; i < KMAXSRC * SEQMAX; i++) if ((unsigned long) i < nout) {
    unsigned s = out[2 * i], key = out[2 * i + 1];
    ASSERT(s < NSRC && taken[s] < len[s] && seq[s * SEQMAX + taken[s]] == key, "C06 each pop is the next unread element of the reported source");
    taken[s]++;
    if (i > 0) {
      unsigned ps = out[2 * (i - 1)], pk = out[2 * (i - 1) + 1];
      ASSERT(pk <= key, "C06 elements come out in non-decreasing key order");
      if (pk == key && ps != s) ASSERT(ps < s, "C06 among equal keys of different sources the lowest source index (newest level) comes first");
    }
  }
  VERIF_END;
}
