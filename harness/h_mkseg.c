/* C03 / C04 / C02 (driver part): the REAL make_segmentation_par (sequential driver, or the chunked path through hook H1 with a
 * harness-chosen chunk count) over a symbolic sorted array.  Oracle: the points the builder must commit to, re-derived from the
 * documented rule (first occurrence of each distinct key at its rank; x+1 -> end of run after a duplicated run followed by a
 * gap; last+1 -> n), each checked against the canonical segment that covers it with the exact integer oracle.
 * -D: NK (keys), KEY_U, KEY_BITS, EPSFIX, CHUNKS, XMAX. */
#include "harness.h"
#include "pla_oracle.h"
typedef KEY_U ukey_t;
#ifndef MAXSEG
#define MAXSEG 8
#endif
unsigned int UNIT(u_mkseg_range)(ukey_t *d, unsigned long n, unsigned long start, unsigned long end, unsigned long eps, unsigned long *count, unsigned long *emitted, long *segs);
unsigned int UNIT(u_mkseg)(ukey_t *d, unsigned long n, unsigned long eps, unsigned int chunks, unsigned long *count, unsigned long *emitted, long *segs);
#ifndef XMAX
#define XMAX 254
#endif
VERIF_MAIN {
  const unsigned long n = NK, eps = EPSFIX;
  ukey_t d[NK]; i64 X[NK];
  for (int i = 0; i < NK; i++) { X[i] = IN(i ? X[i - 1] : 0, XMAX); d[i] = (ukey_t) X[i]; }
  unsigned long count = 0, emitted = 0; long segs[10 * MAXSEG];
  for (int i = 0; i < 10 * MAXSEG; i++) segs[i] = 0;
#ifdef RANGE_END
  /* one non-final chunk [0, RANGE_END) of the chunked builder (RANGE_END < NK) */
  unsigned int rc = UNIT(u_mkseg_range)(d, n, 0, RANGE_END, eps, &count, &emitted, segs);
#else
  unsigned int rc = UNIT(u_mkseg)(d, n, eps, CHUNKS, &count, &emitted, segs);
#endif
  OUT(rc); OUT(count); OUT(emitted); for (int i = 0; i < 10 * MAXSEG; i++) OUT(segs[i]);
  ASSERT(rc == 0, "segmentation of a sorted array does not throw");
  ASSERT(count == emitted && emitted >= 1 && emitted <= MAXSEG, "returned count equals the number of emitted segments");
  ASSERT(YMAXCHK + EPSFIX <= OR_RANK_MAX, "OR_RANGE: oracle masks are value-preserving");
  /* segments come out in increasing first-key order */
  for (int s = 1; s < MAXSEG; s++) if ((unsigned long) s < emitted) ASSERT(segs[10 * (s - 1) + 8] < segs[10 * s + 8], "C03 segments are emitted in increasing first-key order");
  ASSERT(segs[8] == X[0], "C03 the first segment starts at the first key");
  /* expected constraint points (px[j], py[j]) */
  i64 px[2 * NK + 2], py[2 * NK + 2]; int np = 0;
#ifndef RANGE_END
#define RANGE_END NK
#define WHOLE_ARRAY 1
#endif
  for (int i = 0; i < RANGE_END; i++) {
    if (i == 0 || X[i] != X[i - 1]) { px[np] = X[i]; py[np] = i; np++; }
    else if (i + 1 < NK && X[i] != X[i + 1] && X[i] + 1 < X[i + 1]) { px[np] = X[i] + 1; py[np] = i; np++; }   /* guard point after a duplicated run */
  }
#ifdef WHOLE_ARRAY
  px[np] = X[NK - 1] + 1; py[np] = NK; np++;        /* closing point: fed by the chunk that reaches n */
#endif
  for (int j = 0; j < 2 * NK + 2; j++) if (j < np) {
    /* covering segment: the last one whose first key is <= px[j] */
    int c = 0;
    for (int s = 1; s < MAXSEG; s++) if ((unsigned long) s < emitted && segs[10 * s + 8] <= px[j]) c = s;
    long *g = segs + 10 * c;
    int one_point = g[0] == g[4] && g[1] == g[5] && g[2] == g[6] && g[3] == g[7];
    if (one_point) {
      ASSERT(g[0] == px[j] && band_hi(py[j], eps) == g[1] && band_lo(py[j], eps) == g[3], "C03 a one-point segment is exactly that point's band");
    } else {
      ASSERT(g[4] > g[0] && g[6] > g[2], "rectangle sides have positive dx");
      ASSERT(line_in_band(g[0], g[1], g[4], g[5], px[j], py[j], eps), "C03 min-slope extreme line within eps of every point the builder must cover");
      ASSERT(line_in_band(g[2], g[3], g[6], g[7], px[j], py[j], eps), "C03 max-slope extreme line within eps of every point the builder must cover");
    }
  }
  /* C04 count bound: floor(n/(2eps+1)) + c + 1 */
  ASSERT(emitted <= n / (2 * eps + 1) + (CHUNKS <= 1 ? 1 : CHUNKS) + 1, "C04 segments <= floor(n/(2eps+1)) + c + 1");
  VERIF_END;
}
