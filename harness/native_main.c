/* Native driver for a harness (see harness.h): random differential mode and replay mode.
 *   prog --random SEED COUNT     each accepted case prints:  in=[..] out=[..] status
 *   prog --replay FILE           FILE holds the drawn values, one per line; prints the same line; exit 1 if VIOLATED
 */
#include <stdio.h>
#include <stdlib.h>
#include <string.h>
#include <signal.h>
#include <setjmp.h>
#include <unistd.h>

int verif_case(void);
int verif_mode;
static unsigned long long rng, ins[512], outs[1024], replay_vals[512];
static unsigned nin, nout, nreplay, replay_pos;
static int assume_failed, violated, capped;
static char viol_msg[256];
static jmp_buf jb;

static unsigned long long next_rand(void) { rng ^= rng << 13; rng ^= rng >> 7; rng ^= rng << 17; return rng; }

unsigned long long verif_draw(unsigned long long lo, unsigned long long hi) {
  unsigned long long v;
  if (verif_mode == 1) {
    v = replay_pos < nreplay ? replay_vals[replay_pos++] : lo;
  } else {
    unsigned long long span = hi - lo, r = next_rand();
    unsigned sel = (unsigned) (next_rand() % 16);
    if (hi < lo) { assume_failed = 1; v = lo; }
    else if (sel == 0) v = lo;
    else if (sel == 1) v = hi;
    else if (sel == 2 && span >= 1) v = lo + 1;
    else if (sel == 3 && span >= 1) v = hi - 1;
    else if (sel < 8 && span > 8) v = lo + r % 8;                 /* cluster near the lower end: duplicates, dense keys */
    else v = span == ~0ULL ? r : lo + r % (span + 1);
  }
  if (nin < 512) ins[nin++] = v;
  if (v < lo || v > hi) assume_failed = 1;
  return v;
}
void verif_assume_failed(void) { assume_failed = 1; }
void verif_violated(const char *msg) { if (!violated) { violated = 1; strncpy(viol_msg, msg, sizeof viol_msg - 1); } }
void verif_out(unsigned long long v) { if (nout < 1024) outs[nout++] = v; }
/* model-container capacity bound hit in the twin: the case is outside the encoded bound, skip it on both sides */
void F_verif_cap_exceeded(void) { capped = 1; longjmp(jb, 1); }
void verif_cap_exceeded(void) { capped = 1; longjmp(jb, 1); }

static void print_case(const char *status) {
  printf("in=[");
  for (unsigned i = 0; i < nin; i++) printf("%s%llu", i ? "," : "", ins[i]);
  printf("] out=[");
  for (unsigned i = 0; i < nout; i++) printf("%s%llu", i ? "," : "", outs[i]);
  printf("] %s\n", status);
  fflush(stdout);
}
static void on_crash(int sig) {
  char buf[64]; int n = snprintf(buf, sizeof buf, "CRASH signal=%d ", sig);
  (void) !write(1, buf, n);
  print_case("CRASH");
  _exit(4);
}
static int run_one(void) {
  nin = nout = 0; assume_failed = violated = capped = 0; viol_msg[0] = 0;
  if (setjmp(jb) == 0) verif_case();
  return 0;
}
#ifdef VERIF_TWIN
void rt_global_ctors(void);
#endif
int main(int argc, char **argv) {
#ifdef VERIF_TWIN
  rt_global_ctors();   /* static initialisers of the translated unit (the real build runs its own before main) */
#endif
  signal(SIGSEGV, on_crash); signal(SIGABRT, on_crash); signal(SIGFPE, on_crash); signal(SIGBUS, on_crash); signal(SIGILL, on_crash);
  if (argc >= 4 && !strcmp(argv[1], "--random")) {
    unsigned long long seed = strtoull(argv[2], 0, 10); long count = atol(argv[3]); long accepted = 0, tried = 0;
    verif_mode = 0;
    while (accepted < count && tried < count * 50) {
      rng = (seed * 0x9E3779B97F4A7C15ULL) ^ (0xD1B54A32D192ED03ULL * (unsigned long long) (tried + 1)); if (!rng) rng = 1;
      next_rand(); next_rand();
      tried++;
      run_one();
      if (assume_failed) continue;
      accepted++;
      if (capped) { print_case("CAPPED"); continue; }
      if (violated) { char b[300]; snprintf(b, sizeof b, "VIOLATED %s", viol_msg); print_case(b); }
      else print_case("ok");
    }
    printf("SUMMARY accepted=%ld tried=%ld\n", accepted, tried);
    return 0;
  }
  if (argc >= 3 && !strcmp(argv[1], "--replay")) {
    FILE *f = fopen(argv[2], "r"); if (!f) { perror("replay file"); return 2; }
    char line[256];
    while (fgets(line, sizeof line, f)) { if (line[0] == '#' || line[0] == '\n') continue; replay_vals[nreplay++] = strtoull(line, 0, 10); if (nreplay >= 512) break; }
    fclose(f);
    verif_mode = 1;
    run_one();
    if (assume_failed) { print_case("ASSUME-FAILED"); return 2; }
    if (capped) { print_case("CAPPED"); return 2; }
    if (violated) { char b[300]; snprintf(b, sizeof b, "VIOLATED %s", viol_msg); print_case(b); return 1; }
    print_case("ok");
    return 0;
  }
  fprintf(stderr, "usage: %s --random SEED COUNT | --replay FILE\n", argv[0]);
  return 2;
}
