/* C16 (DynamicPGMIndex part): read-only queries leave every level of the container bit-identical and are deterministic. */
#include "harness.h"
unsigned int UNIT(u_dyn_frame)(unsigned char *ops, unsigned long nops, unsigned char *q, unsigned long *out);
VERIF_MAIN {
  unsigned char ops[3 * NOPS + 3], q[2]; unsigned long out[1] = {0};
  for (int i = 0; i < NOPS; i++) { ops[3 * i] = (unsigned char) IN(0, 1); ops[3 * i + 1] = (unsigned char) IN(0, KMAX); ops[3 * i + 2] = (unsigned char) IN(0, VMAX); }
  q[0] = (unsigned char) IN(0, KMAX); q[1] = (unsigned char) IN(0, KMAX + 1);
  unsigned int rc = UNIT(u_dyn_frame)(ops, NOPS, q, out);
  OUT(rc); OUT(out[0]);
  ASSERT(rc == 0, "updates and queries do not throw");
  ASSERT(out[0] == 1, "C16 read-only queries leave the container bit-identical and return the same result when repeated (no write => no data race between readers)");
  VERIF_END;
}
