/* C11: MappedPGMIndex::lower_bound / upper_bound / count / contains against the std algorithms, on a symbolic sorted array with
 * arbitrary duplicate structure.  -D: N, KEY_U, KEY_BITS, KEY_SIGNED, EPS. */
#include "harness.h"
typedef KEY_U ukey_t;
unsigned int UNIT(u_mapped)(ukey_t *d, unsigned long n, ukey_t *q, unsigned long *out);
#define ORD_MAX ((KEY_BITS) == 64 ? ~0ULL : ((1ULL << (KEY_BITS)) - 1))
#if KEY_SIGNED
#define FROM_ORD(o) ((ukey_t)((o) ^ (1ULL << ((KEY_BITS) - 1))))
#else
#define FROM_ORD(o) ((ukey_t)(o))
#endif
#ifndef ORD_HI
#define ORD_HI (ORD_MAX - 1)
#endif
VERIF_MAIN {
  const unsigned long n = N;
  unsigned long long ord[N]; ukey_t d[N];
#ifdef FIXED_DATA
  /* one concrete data set (stated in the job; long duplicate runs), EVERY query key symbolic */
  static const unsigned long long fixed_ord[N] = { FIXED_DATA };
  for (int i = 0; i < N; i++) { ord[i] = fixed_ord[i]; d[i] = FROM_ORD(ord[i]); }
#else
  for (int i = 0; i < N; i++) { ord[i] = IN(i ? ord[i - 1] : 0, ORD_HI); d[i] = FROM_ORD(ord[i]); }
#endif
  unsigned long long qo = IN(0, ORD_MAX - 1); ukey_t q = FROM_ORD(qo);
  unsigned long out[8] = {0, 0, 0, 0, 0, 0, 0, 0};
  unsigned int rc = UNIT(u_mapped)(d, n, &q, out);
  OUT(rc); for (int i = 0; i < 8; i++) OUT(out[i]);
  ASSERT(rc == 0, "construction and queries do not throw");
  unsigned long lb = 0, ub = 0, cnt = 0;
  for (int i = 0; i < N; i++) { if (ord[i] < qo) lb = i + 1; if (ord[i] <= qo) ub = i + 1; if (ord[i] == qo) cnt++; }
  ASSERT(out[0] == lb, "C11 lower_bound equals std::lower_bound");
  ASSERT(out[1] == ub, "C11 upper_bound equals std::upper_bound");
  ASSERT(out[2] == cnt, "C11 count equals std::count");
  ASSERT((out[3] != 0) == (cnt != 0), "C11 contains equals std::binary_search");
  ASSERT(out[4] == n && out[5] == 1 && out[6] == n, "C11 begin()/end()/size() expose exactly the stored sequence");
#ifdef WITH_FRAME
  ASSERT(out[7] == 1, "C16 the mapped queries leave every byte of the container object unchanged and are deterministic");
  for (int i = 0; i < N; i++) ASSERT(d[i] == FROM_ORD(ord[i]), "C16 the queries do not write to the mapped data");
#endif
  VERIF_END;
}
