/* C05 / C06 / C15 (+ C20 rejections): REAL DynamicPGMIndex<uint8_t,uint8_t,PGMIndex<uint8_t,EPS,EPSREC>>(base BASE, buffer_level
 * BUFL, index_level IDXL): bulk-load of NBULK sorted pairs (repeated keys allowed, first wins) then a symbolic history of NOPS
 * insert_or_assign / erase operations, then every query; oracle = array map over the small key universe 0..KMAX.
 * -D: NBULK, NOPS, KMAX, VMAX, MAXOUT, MAXBULK. */
#include "harness.h"
unsigned int UNIT(u_dyn)(unsigned char *bk, unsigned char *bv, unsigned long nbulk, unsigned char *ops, unsigned long nops, unsigned char *q, unsigned long *out);
#ifndef MAXOUT
#define MAXOUT 8
#endif
#define OUTLEN (10 + 2 * MAXOUT + 1 + 2 * MAXOUT + 1)
VERIF_MAIN {
  unsigned char bk[MAXBULK + 1], bv[MAXBULK + 1], ops[3 * NOPS + 3], q[4];
  unsigned long out[OUTLEN];
  int present[KMAX + 1]; unsigned val[KMAX + 1];
  for (int k = 0; k <= KMAX; k++) { present[k] = 0; val[k] = 0; }
  for (int i = 0; i < NBULK; i++) {
    bk[i] = (unsigned char) IN(i ? bk[i - 1] : 0, KMAX);          /* sorted, repeats allowed */
    bv[i] = (unsigned char) IN(0, VMAX);
    if (!present[bk[i]]) { present[bk[i]] = 1; val[bk[i]] = bv[i]; }   /* first one wins */
  }
#ifdef FIXED_OPS
  /* one concrete history (stated in the job; long enough to fill several levels), EVERY query symbolic */
  static const unsigned char fixed_ops[3 * NOPS] = { FIXED_OPS };
#endif
  for (int i = 0; i < NOPS; i++) {
#ifdef FIXED_OPS
    ops[3 * i] = fixed_ops[3 * i]; ops[3 * i + 1] = fixed_ops[3 * i + 1]; ops[3 * i + 2] = fixed_ops[3 * i + 2];
#else
    ops[3 * i] = (unsigned char) IN(0, 1);
    ops[3 * i + 1] = (unsigned char) IN(0, KMAX);
    ops[3 * i + 2] = (unsigned char) IN(0, VMAX);
#endif
    if (ops[3 * i] == 0) { present[ops[3 * i + 1]] = 1; val[ops[3 * i + 1]] = ops[3 * i + 2]; }
    else present[ops[3 * i + 1]] = 0;
  }
  q[0] = (unsigned char) IN(0, KMAX); q[1] = (unsigned char) IN(0, KMAX + 1);
  q[2] = (unsigned char) IN(0, KMAX + 1); q[3] = (unsigned char) IN(q[2], KMAX + 1);
  for (int i = 0; i < OUTLEN; i++) out[i] = 0;
  unsigned int rc = UNIT(u_dyn)(bk, bv, NBULK, ops, NOPS, q, out);
  OUT(rc); for (int i = 0; i < OUTLEN; i++) OUT(out[i]);
  ASSERT(rc == 0, "valid bulk-load, updates and queries do not throw and iteration terminates");
#if DMODE == 2
  /* C15 */
  ASSERT((out[8] & 1) == 0, "C15 every level strictly sorted by key");
  ASSERT((out[8] & 2) == 0, "C15 level sizes within capacity (buffer and base^i)");
  ASSERT((out[8] & (4 | 64)) == 0, "C15 no data beyond the used levels");
  ASSERT((out[8] & (8 | 16)) == 0, "C15 every non-empty indexed level owns a PGM-index built over exactly its keys");
  ASSERT((out[8] & 32) == 0, "C15 the index of an emptied level is reset");
#endif
#if DMODE == 0
  /* C05 */
  ASSERT(out[0] == (unsigned long) present[q[0]], "C05 find(k) hits iff k is live");
  if (present[q[0]]) ASSERT(out[1] == val[q[0]], "C05 find(k) yields the most recently assigned value");
  ASSERT(out[2] == (unsigned long) present[q[0]], "C05 count(k) is 1 iff k is live");
  int lbk = -1;
  for (int k = KMAX; k >= 0; k--) if (k >= q[1] && present[k]) lbk = k;
  ASSERT((out[3] != 0) == (lbk >= 0), "C05 lower_bound(k) is end() iff no live key >= k");
  if (lbk >= 0) ASSERT(out[4] == (unsigned long) lbk && out[5] == val[lbk], "C05 lower_bound(k) designates the smallest live key >= k with its current value");
#endif
  /* C06 */
  unsigned long live = 0;
  for (int k = 0; k <= KMAX; k++) live += present[k];
#if DMODE == 3
  ASSERT(out[6] == live, "C06 size() equals the number of live keys");
  ASSERT((out[7] != 0) == (live == 0), "C06 empty() iff no live key");
#endif
#if DMODE == 1
  ASSERT(out[9] == live, "C06 begin()..end() visits exactly as many elements as there are live keys");
  { int idx = 0;
    for (int k = 0; k <= KMAX; k++) if (present[k]) {
      if (idx < MAXOUT) ASSERT(out[10 + 2 * idx] == (unsigned long) k && out[11 + 2 * idx] == val[k], "C06 iteration visits the live keys in increasing order with their current values");
      idx++; } }
#endif
  { unsigned long base = 10 + 2 * MAXOUT; int idx = 0; unsigned long cnt = 0, from_lb = 0;
    for (int k = 0; k <= KMAX; k++) if (present[k] && k >= q[2] && k <= q[3]) cnt++;
    for (int k = 0; k <= KMAX; k++) if (present[k] && k >= q[1]) from_lb++;
#if DMODE == 3
    ASSERT(out[base] == cnt, "C06 range(lo,hi) returns exactly the live pairs with lo <= key <= hi");
    for (int k = 0; k <= KMAX; k++) if (present[k] && k >= q[2] && k <= q[3]) {
      if (idx < MAXOUT) ASSERT(out[base + 1 + 2 * idx] == (unsigned long) k && out[base + 2 + 2 * idx] == val[k], "C06 range(lo,hi) is in key order with current values");
      idx++; }
#endif
#if DMODE == 4
    ASSERT(out[base + 1 + 2 * MAXOUT] == from_lb, "C06 iterating from lower_bound(k) visits exactly the live keys >= k");
#endif
  }
  VERIF_END;
}
