/* C13 / C14: REAL MultidimensionalPGMIndex<2, CT, EPS>: constructor (encode, sort, index build), contains(), range().
 * -D: MAXPTS, CMAX (largest coordinate value), MODE (0 contains, 1 range), CT_U. */
#include "harness.h"
typedef CT_U ct_t;
unsigned int UNIT(u_md)(ct_t *pts, unsigned long n, ct_t *q, unsigned int mode, unsigned long *out);
#ifndef MAXOUT
#define MAXOUT 8
#endif
#ifndef NPTS_MIN
#define NPTS_MIN 1
#endif
static unsigned long zcode(unsigned long x, unsigned long y) { /* independent bit interleave: x at bit 0, y at bit 1 */
  unsigned long c = 0;
  for (int b = 0; b < 8; b++) c |= (((x >> b) & 1UL) << (2 * b)) | (((y >> b) & 1UL) << (2 * b + 1));
  return c;
}
VERIF_MAIN {
  unsigned long n = (NPTS_MIN) == (MAXPTS) ? (unsigned long) (MAXPTS) : (unsigned long) IN(NPTS_MIN, MAXPTS);
  ct_t pts[2 * MAXPTS]; ct_t q[4]; unsigned long out[1 + 2 * MAXOUT];
#ifdef FIXED_PTS
  /* one concrete point set (stated in the job), EVERY query point / box symbolic */
  static const ct_t fixed_pts[2 * MAXPTS] = { FIXED_PTS };
  for (int i = 0; i < 2 * MAXPTS; i++) pts[i] = fixed_pts[i];
#else
  for (int i = 0; i < 2 * MAXPTS; i++) pts[i] = (ct_t) IN(0, CMAX);
#endif
  for (int i = 0; i < 1 + 2 * MAXOUT; i++) out[i] = 0;
#if MODE == 0
  q[0] = (ct_t) IN(0, CMAX); q[1] = (ct_t) IN(0, CMAX); q[2] = q[3] = 0;
  unsigned int rc = UNIT(u_md)(pts, n, q, 0, out);
  OUT(rc); OUT(out[0]);
  ASSERT(rc == 0, "construction and contains() on encodable points do not throw");
  int member = 0;
  for (int i = 0; i < MAXPTS; i++) if ((unsigned long) i < n && pts[2 * i] == q[0] && pts[2 * i + 1] == q[1]) member = 1;
  ASSERT((out[0] != 0) == (member != 0), "C14 contains(p) is true iff p is one of the stored points");
#else
  q[0] = (ct_t) IN(0, CMAX); q[1] = (ct_t) IN(0, CMAX); q[2] = (ct_t) IN(q[0], CMAX); q[3] = (ct_t) IN(q[1], CMAX);
  unsigned int rc = UNIT(u_md)(pts, n, q, 1, out);
  OUT(rc); for (int i = 0; i < 1 + 2 * MAXOUT; i++) OUT(out[i]);
  ASSERT(rc == 0, "construction and range() on a box with min <= max do not throw and terminate");
  /* oracle: in-box points, with multiplicity, in increasing Morton order */
  unsigned long cnt = 0;
  for (int i = 0; i < MAXPTS; i++)
    if ((unsigned long) i < n && pts[2 * i] >= q[0] && pts[2 * i] <= q[2] && pts[2 * i + 1] >= q[1] && pts[2 * i + 1] <= q[3]) cnt++;
  ASSERT(out[0] == cnt, "C13 range() yields exactly as many points as lie inside the box (with multiplicity)");
  for (int k = 0; k < MAXPTS; k++)
    if ((unsigned long) k < out[0] && k < MAXOUT) {
      unsigned long x = out[1 + 2 * k], y = out[2 + 2 * k];
      ASSERT(x >= q[0] && x <= q[2] && y >= q[1] && y <= q[3], "C13 every produced point lies inside the box");
      /* multiplicity: the number of times (x,y) is produced equals the number of times it is stored */
      unsigned long stored = 0, produced = 0;
      for (int i = 0; i < MAXPTS; i++) if ((unsigned long) i < n && pts[2 * i] == x && pts[2 * i + 1] == y) stored++;
      for (int j = 0; j < MAXPTS; j++) if ((unsigned long) j < out[0] && j < MAXOUT && out[1 + 2 * j] == x && out[2 + 2 * j] == y) produced++;
      ASSERT(stored == produced, "C13 each in-box point is produced with its multiplicity");
      if (k > 0) ASSERT(zcode(out[1 + 2 * (k - 1)], out[2 + 2 * (k - 1)]) <= zcode(x, y), "C13 points are produced in increasing Morton order");
    }
#endif
  VERIF_END;
}
