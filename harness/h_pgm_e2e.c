/* C01 / C02 (+ the count bound of C04) end to end: the REAL PGMIndex constructor (build -> make_segmentation ->
 * OptimalPiecewiseLinearModel -> Segment ctor) followed by the REAL search(), on a symbolic sorted array and a symbolic query.
 * Parameters (-D): N (max keys), KEY_U (unsigned C type as wide as the key), KEY_BITS, KEY_SIGNED, EPS. */
#include "harness.h"
#ifndef N
#define N 3
#endif
#ifndef NMIN
#define NMIN 1
#endif
typedef KEY_U ukey_t;
unsigned int UNIT(u_pgm_e2e)(ukey_t *d, unsigned long n, ukey_t *q, unsigned long *out);

/* keys are drawn as ordinals (position in the key type's order); ordinal -> key bits */
#define ORD_MAX ((KEY_BITS) == 64 ? ~0ULL : ((1ULL << (KEY_BITS)) - 1))
#if KEY_SIGNED
#define FROM_ORD(o) ((ukey_t)((o) ^ (1ULL << ((KEY_BITS) - 1))))
#else
#define FROM_ORD(o) ((ukey_t)(o))
#endif
#ifndef ORD_LO
#define ORD_LO 0
#endif
#ifndef ORD_HI
#ifdef ALLOW_SENTINEL
#define ORD_HI ORD_MAX
#else
#define ORD_HI (ORD_MAX - 1) /* the largest value is the reserved sentinel */
#endif
#endif

VERIF_MAIN {
  unsigned long n = (NMIN) == (N) ? (unsigned long) (N) : (unsigned long) IN(NMIN, N); /* exact-n jobs keep n a literal so that loops over n fold */
  unsigned long long ord[N];
  ukey_t d[N];
#ifdef PATTERN
  /* one job per equality pattern: bit i-1 of PATTERN set <=> d[i] == d[i-1] (the same symbolic value, so the duplicate tests of the
     driver fold), clear <=> d[i] > d[i-1].  The 2^(N-1) patterns partition the sorted arrays of length N. */
  for (int i = 0; i < N; i++) {
    if (i && ((PATTERN >> (i - 1)) & 1)) ord[i] = ord[i - 1];
    else ord[i] = IN(i ? ord[i - 1] + 1 : ORD_LO, ORD_HI);
    d[i] = FROM_ORD(ord[i]);
  }
#else
  for (int i = 0; i < N; i++) {
    ord[i] = IN(i ? ord[i - 1] : ORD_LO, ORD_HI);
    d[i] = FROM_ORD(ord[i]);
  }
#endif
  unsigned long long qo = IN(0, ORD_MAX - 1);
  ukey_t q = FROM_ORD(qo);
  unsigned long out[7] = {0, 0, 0, 0, 0, 0, 0};
  unsigned int rc = UNIT(u_pgm_e2e)(d, n, &q, out);
  unsigned long pos = out[0], lo = out[1], hi = out[2], segs = out[3], height = out[4];
  OUT(rc); OUT(pos); OUT(lo); OUT(hi); OUT(segs); OUT(height); OUT(out[5]); OUT(out[6]);
#ifdef ALLOW_SENTINEL
  /* C20: data whose last key is the reserved value must be rejected with std::invalid_argument, and only such data */
  ASSERT((rc == 1) == (ord[n - 1] == ORD_MAX), "C20 std::invalid_argument iff the data contains the reserved largest key");
  if (ord[n - 1] == ORD_MAX) { VERIF_END; }
#endif
  ASSERT(rc == 0, "construction and search on valid input do not throw");
  unsigned long lb = 0;
  for (int i = 0; i < N; i++)
    if ((unsigned long) i < n && ord[i] < qo) lb = i + 1; /* global std::lower_bound */
  ASSERT(lo <= hi && hi <= n, "C01 lo <= hi <= n");
  ASSERT(hi - lo <= 2 * (EPS) + 2, "C01 hi - lo <= 2*Epsilon+2");
  ASSERT(lo <= pos, "C01 lo <= pos");
  ASSERT(lo <= lb && lb <= hi, "C02 lower_bound over [lo,hi) equals the global lower_bound");
  if (lb < n && ord[lb] == qo) ASSERT(lb < hi, "C01 first occurrence of a present key lies in [lo,hi)");
  ASSERT(segs >= 1 && segs <= n / (2 * (EPS) + 1) + 2, "C04 segments_count <= floor(n/(2eps+1)) + c + 1 with c = 1");
  ASSERT(height >= 1, "height >= 1");
#if EPSREC > 0
  ASSERT(out[5] <= (EPSREC) + 1, "C07 at every level the responsible segment lies within EpsilonRecursive+1 of the predicted position");
#endif
#ifdef WITH_FRAME
  ASSERT(out[6] == 1, "C16 search() leaves every byte of the index unchanged and is deterministic (no write => no data race between readers)");
#endif
  VERIF_END;
}
