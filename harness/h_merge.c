/* C05/C06 (kernel): DynamicPGMIndex::merge<SkipDeleted,false>(newer, older) for ALL pairs of strictly sorted runs of up to RUNMAX
 * items (tombstones anywhere) against the specification: union of keys in order; on equal keys the newer item wins; with
 * SkipDeleted a newer tombstone and its older victim are both dropped (and nothing else is).  -D: RUNMAX, KMAX, VMAX, SKIPDEL. */
#include "harness.h"
unsigned int UNIT(u_merge)(unsigned int skip_deleted, unsigned char *a, unsigned long na, unsigned char *b, unsigned long nb, unsigned char *out, unsigned long *nout);
VERIF_MAIN {
  unsigned char a[3 * RUNMAX], b[3 * RUNMAX], out[6 * RUNMAX];
  unsigned long na = IN(0, RUNMAX), nb = IN(0, RUNMAX), nout = 0;
  int ina[KMAX + 1], inb[KMAX + 1]; unsigned va[KMAX + 1], vb[KMAX + 1], ta[KMAX + 1], tb[KMAX + 1];
  for (int k = 0; k <= KMAX; k++) { ina[k] = inb[k] = 0; va[k] = vb[k] = ta[k] = tb[k] = 0; }
  for (int i = 0; i < RUNMAX; i++) {
    a[3 * i] = (unsigned char) IN(0, KMAX); a[3 * i + 1] = (unsigned char) IN(0, VMAX); a[3 * i + 2] = (unsigned char) IN(0, 1);
    b[3 * i] = (unsigned char) IN(0, KMAX); b[3 * i + 1] = (unsigned char) IN(0, VMAX); b[3 * i + 2] = (unsigned char) IN(0, 1);
    if ((unsigned long) i < na) { if (i) ASSUME(a[3 * i] > a[3 * (i - 1)]); ina[a[3 * i]] = 1; va[a[3 * i]] = a[3 * i + 1]; ta[a[3 * i]] = a[3 * i + 2]; }
    if ((unsigned long) i < nb) { if (i) ASSUME(b[3 * i] > b[3 * (i - 1)]); inb[b[3 * i]] = 1; vb[b[3 * i]] = b[3 * i + 1]; tb[b[3 * i]] = b[3 * i + 2]; }
  }
  for (int i = 0; i < 6 * RUNMAX; i++) out[i] = 0;
  UNIT(u_merge)(SKIPDEL, a, na, b, nb, out, &nout);
  OUT(nout); for (int i = 0; i < 6 * RUNMAX; i++) OUT(out[i]);
  /* expected output, key by key */
  unsigned long idx = 0;
  for (int k = 0; k <= KMAX; k++) {
    if (!ina[k] && !inb[k]) continue;
    if (SKIPDEL && ina[k] && inb[k] && ta[k]) continue;          /* newer tombstone meets its victim in the last level: both dropped */
    unsigned ev = ina[k] ? va[k] : vb[k], et = ina[k] ? ta[k] : tb[k];
    ASSERT(idx < nout, "C05 merge keeps every key that must survive");
    if (idx < 2 * RUNMAX) {
      ASSERT(out[3 * idx] == k, "C05 merge output is the union of the keys in increasing order");
      ASSERT((out[3 * idx + 2] != 0) == (et != 0), "C05 on equal keys the newer item decides whether the key is a tombstone");
      if (!et) ASSERT(out[3 * idx + 1] == ev, "C05 on equal keys the newer item's value wins");
    }
    idx++;
  }
  ASSERT(nout == idx, "C05 merge emits nothing else");
  VERIF_END;
}
