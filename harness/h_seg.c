/* C01/C02 (leaf): the position estimate of a segment is anchored and monotone.  For EVERY key of the type (full width), every
 * slope (1+m/8)*2^e (m 0..7, e -12..10) or 0 and every intercept < 2^20:  s(key) == intercept, and key <= k1 <= k2 implies s(k1) <= s(k2).
 * (Monotone evaluation is what carries the epsilon bound from the fed points to the absent keys between them.)
 * -D: KEY_U, KEY_BITS, KEY_SIGNED, FLT_BITS (32|64). */
#include "harness.h"
typedef KEY_U ukey_t;
#if FLT_BITS == 32
typedef float flt_t; typedef unsigned int fbits_t;
#define SLOPE_MAX_BITS 0x44800000ULL            /* 1024.0f: every pattern in [0, this] is a finite float >= 0 */
#else
typedef double flt_t; typedef unsigned long fbits_t;
#define SLOPE_MAX_BITS 0x4090000000000000ULL    /* 1024.0 */
#endif
unsigned int UNIT(u_seg)(ukey_t *key, flt_t *slope, unsigned int intercept, ukey_t *k1, ukey_t *k2, unsigned long *out);
#define ORD_MAX ((KEY_BITS) == 64 ? ~0ULL : ((1ULL << (KEY_BITS)) - 1))
#if KEY_SIGNED
#define FROM_ORD(o) ((ukey_t)((o) ^ (1ULL << ((KEY_BITS) - 1))))
#else
#define FROM_ORD(o) ((ukey_t)(o))
#endif
VERIF_MAIN {
  unsigned long long ko = IN(0, ORD_MAX - 1), o1 = IN(ko, ORD_MAX - 1), o2 = IN(o1, ORD_MAX - 1);
  ukey_t key = FROM_ORD(ko), k1 = FROM_ORD(o1), k2 = FROM_ORD(o2);
  /* slope = (1 + m/8) * 2^e with m in 0..7 and e in -12..10, or 0: a few-bit significand keeps the monotonicity query easy for SAT
     (arbitrary 24/53-bit significands gave no verdict in 15 min) while key differences stay full width */
#ifdef SLOPE_POW2
  unsigned long long se = IN(0, 23), sm = 0;      /* wide keys: power-of-two slopes only (2^-12 .. 2^10, or 0) */
#else
  unsigned long long se = IN(0, 23), sm = IN(0, 7);
#endif
  fbits_t sb;
#if FLT_BITS == 32
  sb = se == 0 ? 0u : (fbits_t) (((115ULL + se) << 23) | (sm << 20));
#else
  sb = se == 0 ? 0ul : (fbits_t) (((1011ULL + se) << 52) | (sm << 49));
#endif
  flt_t slope; union { fbits_t b; flt_t f; } cv; cv.b = sb; slope = cv.f;
  unsigned int intercept = (unsigned int) IN(0, (1u << 20) - 1);
  unsigned long out[3] = {0, 0, 0};
  UNIT(u_seg)(&key, &slope, intercept, &k1, &k2, out);
  OUT(out[0]); OUT(out[1]); OUT(out[2]);
  ASSERT(out[0] == intercept, "C01 a segment evaluated at its own key yields its intercept");
  ASSERT(out[1] <= out[2], "C02 the position estimate is monotone in the key (key <= k1 <= k2 implies s(k1) <= s(k2))");
  ASSERT(out[1] >= intercept, "C02 the estimate never falls below the intercept for keys at or above the segment key");
  VERIF_END;
}
