/* C20, DynamicPGMIndex part: base not a power of two, unsorted bulk-load, reserved mapped value, lo > hi. -D: RKIND, MAXBULK */
#include "harness.h"
unsigned int UNIT(u_dyn_reject)(unsigned int kind, unsigned char base, unsigned char *bk, unsigned char *bv, unsigned long nb, unsigned char *arg, unsigned long *out);
VERIF_MAIN {
  unsigned char bk[MAXBULK + 1], bv[MAXBULK + 1], arg[2] = {0, 0};
  unsigned long out[3] = {0, 0, 0};
  for (int i = 0; i <= MAXBULK; i++) { bk[i] = 0; bv[i] = 0; }
#if RKIND == 0
  unsigned char base = (unsigned char) IN(2, 40);
  unsigned int rc = UNIT(u_dyn_reject)(0, base, bk, bv, 0, arg, out);
  OUT(rc);
  int pow2 = (base & (base - 1)) == 0;
  ASSERT((rc == 1) == !pow2, "C20 a base >= 2 is rejected with std::invalid_argument iff it is not a power of two");
#elif RKIND == 1
  int sorted = 1;
  for (int i = 0; i < MAXBULK; i++) { bk[i] = (unsigned char) IN(0, 6); bv[i] = (unsigned char) IN(0, 3); if (i && bk[i] < bk[i - 1]) sorted = 0; }
  unsigned int rc = UNIT(u_dyn_reject)(1, 2, bk, bv, MAXBULK, arg, out);
  OUT(rc); OUT(out[0]);
  ASSERT((rc == 1) == !sorted, "C20 a bulk-load range is rejected with std::invalid_argument iff it is not sorted by key");
  if (sorted) { unsigned long distinct = 0; for (int i = 0; i < MAXBULK; i++) if (!i || bk[i] != bk[i - 1]) distinct++; ASSERT(out[0] == distinct, "bulk-load keeps the first of each group of equal keys"); }
#elif RKIND == 2
  for (int i = 0; i < MAXBULK; i++) { bk[i] = (unsigned char) IN(i ? bk[i - 1] + 1 : 0, 6 + i); bv[i] = (unsigned char) IN(0, 3); }
  arg[0] = (unsigned char) IN(0, 8); arg[1] = (unsigned char) IN(250, 255);
  unsigned int rc = UNIT(u_dyn_reject)(2, 2, bk, bv, MAXBULK, arg, out);
  OUT(rc); OUT(out[0]); OUT(out[1]); OUT(out[2]);
  ASSERT((rc == 1) == (arg[1] == 255), "C20 insert_or_assign rejects exactly the reserved tombstone value with std::invalid_argument");
  int was = 0; unsigned wasv = 0;
  for (int i = 0; i < MAXBULK; i++) if (bk[i] == arg[0]) { was = 1; wasv = bv[i]; }
  if (rc == 1) {
    ASSERT(out[0] == MAXBULK, "C20 a rejected insert leaves size() unchanged");
    ASSERT((out[1] != 0) == (was != 0) && (!was || out[2] == wasv), "C20 a rejected insert leaves the key's mapping exactly as it was");
  } else {
    ASSERT(out[1] == 1 && out[2] == arg[1], "an accepted insert is visible");
  }
#elif RKIND == 4
  /* the reserved mapped value at ANY position of a sorted bulk-load range (repeated keys allowed: only the first of a group is kept) */
  int kept_reserved = 0, any_reserved = 0;
  for (int i = 0; i < MAXBULK; i++) {
    bk[i] = (unsigned char) IN(i ? bk[i - 1] : 0, 6); bv[i] = (unsigned char) IN(252, 255);
    if (bv[i] == 255) { any_reserved = 1; if (!i || bk[i] != bk[i - 1]) kept_reserved = 1; }
  }
  unsigned int rc = UNIT(u_dyn_reject)(1, 2, bk, bv, MAXBULK, arg, out);
  OUT(rc); OUT(out[0]);
  if (kept_reserved) ASSERT(rc == 1, "C20 a bulk-load pair carrying the reserved tombstone value is rejected with std::invalid_argument at every position");
  if (!any_reserved) ASSERT(rc == 0, "C20 a sorted bulk-load without the reserved value is accepted");
#else
  for (int i = 0; i < MAXBULK; i++) { bk[i] = (unsigned char) IN(i ? bk[i - 1] + 1 : 0, 6 + i); bv[i] = (unsigned char) IN(0, 3); }
  arg[0] = (unsigned char) IN(0, 9); arg[1] = (unsigned char) IN(0, 9);
  unsigned int rc = UNIT(u_dyn_reject)(3, 2, bk, bv, MAXBULK, arg, out);
  OUT(rc); OUT(out[0]);
  ASSERT((rc == 1) == (arg[0] > arg[1]), "C20 range(lo,hi) throws std::invalid_argument iff lo > hi");
#endif
  VERIF_END;
}
