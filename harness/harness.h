/* One harness source serves three builds:
 *   __CPROVER__            : inputs are nondeterministic (symbolic), ASSUME/ASSERT are CBMC assumptions/assertions;
 *   native, linked against the gcc build of the translated C ("twin")  -> differential validation of the encoding;
 *   native, linked against the g++ build of the real C++ wrapper ("real") -> differential reference and REPLAY of
 *                                                                          counterexamples with the very same predicate.
 * Inputs are drawn through IN(lo,hi) only, in a fixed order, so a counterexample is just the list of drawn values. */
#ifndef VERIF_HARNESS_H
#define VERIF_HARNESS_H
#include <stdint.h>
#include <stddef.h>

#ifdef __CPROVER__
#include "rt.h"
#define UNIT_(name) F_##name
#define UNIT(name) UNIT_(name)
unsigned long long nondet_ull(void);
unsigned long long verif_in[256];
unsigned verif_nin;
#ifdef VERIF_FIXED
/* loop-bound profiling runs: the same harness on one concrete input vector (decides nothing) */
static const unsigned long long verif_fixed[] = { VERIF_FIXED, 0 };
static inline unsigned long long verif_draw(unsigned long long lo, unsigned long long hi) {
  unsigned long long v = verif_fixed[verif_nin];
  verif_in[verif_nin++] = v;
  return v;
}
#else
static inline unsigned long long verif_draw(unsigned long long lo, unsigned long long hi) {
  unsigned long long v = nondet_ull();
  __CPROVER_assume(v >= lo && v <= hi);
  verif_in[verif_nin++] = v;
  return v;
}
#endif
#define IN(lo, hi) verif_draw((unsigned long long)(lo), (unsigned long long)(hi))
#define ASSUME(c) __CPROVER_assume(c)
#define ASSERT(c, msg) __CPROVER_assert((c), "PROP: " msg)
#define OUT(x) ((void)0)
#define COVER(c, msg) __CPROVER_cover(c)
void F_verif_cap_exceeded(void) { __CPROVER_assert(0, "BOUND: model container capacity exceeded"); __CPROVER_assume(0); }
void rt_global_ctors(void);
int verif_body(void);
int main(void) { rt_global_ctors(); return verif_body(); }
#define VERIF_MAIN int verif_body(void)
#ifdef WITNESS
#define VERIF_END do { __CPROVER_assert(0, "WITNESS: end of harness reachable"); return 0; } while (0)
#else
#define VERIF_END return 0
#endif

#else /* native */
#include <stdio.h>
#include <stdlib.h>
#include <string.h>
#ifdef VERIF_TWIN
#define UNIT_(name) F_##name
#else
#define UNIT_(name) name
#endif
#define UNIT(name) UNIT_(name)
extern int verif_mode;            /* 0 = random, 1 = replay */
unsigned long long verif_draw(unsigned long long lo, unsigned long long hi);
void verif_assume_failed(void);
void verif_violated(const char *msg);
void verif_out(unsigned long long v);
#define IN(lo, hi) verif_draw((unsigned long long)(lo), (unsigned long long)(hi))
#define ASSUME(c) do { if (!(c)) { verif_assume_failed(); return 0; } } while (0)
#define ASSERT(c, msg) do { if (!(c)) verif_violated(msg); } while (0)
#define OUT(x) verif_out((unsigned long long)(x))
#define COVER(c, msg) ((void)0)
#define VERIF_MAIN int verif_case(void)
#define VERIF_END return 1
#endif

#endif
