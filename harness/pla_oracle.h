/* Exact integer oracle for the piecewise-linear model: bands, lines through two constraint points, feasibility.
 * Independent of the builder's hull logic.  Quantities are tiny: ranks (and band values) <= 31, key differences <= 255.
 * Every product is written as (rank-like value, masked to 5 bits) x (non-negative key difference, masked to 8 bits), so the
 * bit-blasted multiplier has 5 partial products; OR_RANGE (asserted by the harnesses) states the ranges that make the masks
 * value-preserving. */
#ifndef PLA_ORACLE_H
#define PLA_ORACLE_H
typedef int i64;
#define OR_RANK_MAX 31
#define OR_MUL(r, d) ((unsigned) ((unsigned) (r) & 31u) * ((unsigned) (d) & 255u))
static i64 band_lo(i64 y, i64 eps) { return y <= eps ? 0 : y - eps; }   /* lower band, clamped at rank 0 (Y = size_t) */
static i64 band_hi(i64 y, i64 eps) { return y + eps; }
/* Line through P=(px,py), Q=(qx,qy) with px < qx and 0 <= py,qy <= 31.  Is lo <= L(x) <= hi (0 <= lo <= hi <= 31)?
 * With dx = qx-px > 0:   L(x)*dx = py*(qx-x) + qy*(x-px); the three cases keep every factor non-negative. */
static int line_between(i64 px, i64 py, i64 qx, i64 qy, i64 x, i64 lo, i64 hi) {
  unsigned dx = (unsigned) (qx - px);
  if (x < px) {          /* L*dx = py*(qx-x) - qy*(px-x) */
    unsigned a = OR_MUL(py, qx - x), b = OR_MUL(qy, px - x);
    return a >= b + OR_MUL(lo, dx) && a <= b + OR_MUL(hi, dx);
  } else if (x > qx) {   /* L*dx = qy*(x-px) - py*(x-qx) */
    unsigned a = OR_MUL(qy, x - px), b = OR_MUL(py, x - qx);
    return a >= b + OR_MUL(lo, dx) && a <= b + OR_MUL(hi, dx);
  } else {               /* L*dx = py*(qx-x) + qy*(x-px) */
    unsigned a = OR_MUL(py, qx - x) + OR_MUL(qy, x - px);
    return a >= OR_MUL(lo, dx) && a <= OR_MUL(hi, dx);
  }
}
static int line_in_band(i64 px, i64 py, i64 qx, i64 qy, i64 x, i64 y, i64 eps) {
  return line_between(px, py, qx, qy, x, band_lo(y, eps), band_hi(y, eps));
}
/* is there ANY line within the bands of the m points (xs strictly increasing)?  A non-empty feasible set of (slope,
 * intercept) pairs is a bounded convex polygon when m >= 2, so one of its vertices - a line through two constraint
 * points with different x - is feasible. */
static int feasible(const i64 *xs, const i64 *ys, int m, i64 eps) {
  if (m <= 1) return 1;
  for (int a = 0; a < m; a++)
    for (int b = a + 1; b < m; b++)
      for (int ta = 0; ta < 2; ta++)
        for (int tb = 0; tb < 2; tb++) {
          i64 pa = ta ? band_hi(ys[a], eps) : band_lo(ys[a], eps);
          i64 pb = tb ? band_hi(ys[b], eps) : band_lo(ys[b], eps);
          int ok = 1;
          for (int i = 0; i < m; i++)
            if (!line_in_band(xs[a], pa, xs[b], pb, xs[i], ys[i], eps)) ok = 0;
          if (ok) return 1;
        }
  return 0;
}
#endif
