/* Exact (integer) oracle for the piecewise-linear model: bands, lines through two constraint points, feasibility.
 * All quantities are tiny (8-bit x, ranks <= ~16, eps <= 2: every product below 2^13), so 32-bit arithmetic is exact.
 * Products are computed modulo 2^32 on unsigned operands and read back as signed: identical to the signed product when it
 * fits (it does, see OR_RANGE asserted by the harness), and it spares the solver the double-width overflow-check multipliers. */
#ifndef PLA_ORACLE_H
#define PLA_ORACLE_H
typedef int i64;
#define OR_MUL(a, b) ((int) ((unsigned) (a) * (unsigned) (b)))
#define OR_ADD(a, b) ((int) ((unsigned) (a) + (unsigned) (b)))
static i64 band_lo(i64 y, i64 eps) { return y <= eps ? 0 : y - eps; }   /* lower band, clamped at rank 0 (Y = size_t) */
static i64 band_hi(i64 y, i64 eps) { return y + eps; }
/* does the line through (px,py)-(qx,qy), px != qx, pass through [band_lo, band_hi] at (x, y)? */
static int line_in_band(i64 px, i64 py, i64 qx, i64 qy, i64 x, i64 y, i64 eps) {
  i64 dx = qx - px, dy = qy - py;
  if (dx < 0) { dx = -dx; dy = -dy; }
  /* L(x)*dx = py*dx + (x-px)*dy */
  i64 v = OR_ADD(OR_MUL(py, dx), OR_MUL(x - px, dy));
  return v >= OR_MUL(band_lo(y, eps), dx) && v <= OR_MUL(band_hi(y, eps), dx);
}
/* is there ANY line within the bands of the m points (xs strictly increasing)?  A non-empty feasible set of (slope,
 * intercept) pairs is a bounded convex polygon when m >= 2, so one of its vertices - a line through two constraint
 * points with different x - is feasible.  Independent of the builder's hull logic. */
static int feasible(const i64 *xs, const i64 *ys, int m, i64 eps) {
  if (m <= 1) return 1;
  for (int a = 0; a < m; a++)
    for (int b = a + 1; b < m; b++)
      for (int ta = 0; ta < 2; ta++)
        for (int tb = 0; tb < 2; tb++) {
          i64 pa = ta ? band_hi(ys[a], eps) : band_lo(ys[a], eps);
          i64 pb = tb ? band_hi(ys[b], eps) : band_lo(ys[b], eps);
          int ok = 1;
          for (int i = 0; i < m; i++)
            if (!line_in_band(xs[a], pa, xs[b], pb, xs[i], ys[i], eps)) ok = 0;
          if (ok) return 1;
        }
  return 0;
}
#endif
