/* C03 / C04 on the hull itself: k symbolic points fed to the REAL OptimalPiecewiseLinearModel::add_point; get_segment().
 * -D: NPTS (max points), KEY_U, KEY_BITS, EPSMAX, YMAX. */
#include "harness.h"
#include "pla_oracle.h"
typedef KEY_U ukey_t;
unsigned int UNIT(u_pla)(ukey_t *xs, unsigned long *ys, unsigned long k, unsigned long eps, unsigned long *accepted, long *seg);
#ifndef NPTS
#define NPTS 4
#endif
#ifndef EPSMAX
#define EPSMAX 2
#endif
#ifndef YMAX
#define YMAX 12
#endif
#ifndef XMAX
#define XMAX ((1ULL << (KEY_BITS)) - 1)
#endif

VERIF_MAIN {
#ifdef EPSFIX
  unsigned long eps = EPSFIX;   /* literal: band arithmetic folds */
#else
  unsigned long eps = IN(0, EPSMAX);
#endif
  ukey_t xs[NPTS]; unsigned long ys[NPTS]; i64 X[NPTS], Y[NPTS];
#ifdef REJECT_MODE
  /* C20: keys in any order (NPTS == 3): the builder must throw std::logic_error iff a key does not exceed its predecessor */
  for (int i = 0; i < NPTS; i++) { X[i] = IN(0, XMAX); Y[i] = IN(i ? Y[i - 1] : 0, YMAX); xs[i] = (ukey_t) X[i]; ys[i] = (unsigned long) Y[i]; }
  {
    unsigned long acc0 = 0; long seg0[10] = {0};
    unsigned int rc0 = UNIT(u_pla)(xs, ys, NPTS, eps, &acc0, seg0);
    OUT(rc0);
    int bad_order = X[1] <= X[0] || X[2] <= X[1];
    ASSERT((rc0 == 2) == (bad_order != 0), "C20 add_point throws std::logic_error iff a key does not exceed its predecessor inside the segment");
    ASSERT(rc0 == 0 || rc0 == 2, "no other exception");
    VERIF_END;
  }
#endif
  for (int i = 0; i < NPTS; i++) {
    X[i] = IN(i ? X[i - 1] + 1 : 0, XMAX - (NPTS - 1 - i));   /* strictly increasing keys */
    Y[i] = IN(i ? Y[i - 1] : 0, YMAX);                    /* non-decreasing ranks, as the driver produces them */
    xs[i] = (ukey_t) X[i]; ys[i] = (unsigned long) Y[i];
  }
  unsigned long acc = 0; long seg[10] = {0};
  unsigned int rc = UNIT(u_pla)(xs, ys, NPTS, eps, &acc, seg);
  OUT(rc); OUT(acc); for (int i = 0; i < 10; i++) OUT(seg[i]);
  ASSERT(rc == 0, "increasing points are accepted without exception");
  ASSERT(YMAX + EPSMAX <= OR_RANK_MAX, "OR_RANGE: oracle masks are value-preserving");
  ASSERT(acc >= 2 && acc <= NPTS, "the first two points always fit one segment");
  /* C03: both extreme lines of the reported rectangle stay within eps of every accepted point */
  i64 r0x = seg[0], r0y = seg[1], r1x = seg[2], r1y = seg[3], r2x = seg[4], r2y = seg[5], r3x = seg[6], r3y = seg[7];
  ASSERT(seg[8] == X[0], "C03 segment starts at its first point");
  ASSERT(r2x > r0x && r3x > r1x, "rectangle sides have positive dx");
  for (int i = 0; i < NPTS; i++)
    if ((unsigned long) i < acc) {
      ASSERT(line_in_band(r0x, r0y, r2x, r2y, X[i], Y[i], eps), "C03 min-slope extreme line within eps of every accepted point");
      ASSERT(line_in_band(r1x, r1y, r3x, r3y, X[i], Y[i], eps), "C03 max-slope extreme line within eps of every accepted point");
      /* the reported line: slope (r3-r1), integer intercept rounded at origin first_x: within eps + 1/2 */
      {
        /* reported line: slope (r3-r1) = dy/dx, integer intercept c = seg[9] at origin X[0]:  2*|c*dx + (x-X0)*dy - y*dx| <= (2eps+1)*dx.
           x >= X0 here; dy >= 0 (ranks non-decreasing => the max-slope side never descends: asserted) */
        unsigned dx = (unsigned) (r3x - r1x); i64 dy = r3y - r1y;
        ASSERT(dy >= 0 && seg[9] >= 0 && seg[9] <= OR_RANK_MAX, "reported slope non-negative, intercept a small rank");
        unsigned lhs = OR_MUL(seg[9], dx) + OR_MUL(dy, X[i] - X[0]), mid = OR_MUL(Y[i], dx);
        ASSERT(2 * lhs <= 2 * mid + (2 * (unsigned) eps + 1) * dx && 2 * mid <= 2 * lhs + (2 * (unsigned) eps + 1) * dx, "C03 reported line (rounded intercept) within eps + 1/2 of every accepted point");
      }
    }
  /* C04: rejection only when no line fits the accepted points plus the rejected one (maximality) */
#ifndef NO_MAXIMALITY
  if (acc < NPTS) ASSERT(!feasible(X, Y, (int) acc + 1, eps), "C04 a point is rejected only if no line fits it together with the current segment");
#endif
  VERIF_END;
}
