/* C05 / C06 / C15 as an INDUCTIVE STEP: an arbitrary container state satisfying the LSM invariant (strictly sorted levels within
 * their capacities, nothing beyond used_levels; tombstones anywhere) is laid out through the accessor hook, ONE real
 * insert_or_assign / erase runs, and the invariant plus agreement with the abstract map are asserted afterwards.  Covers histories
 * of any length whose states satisfy the invariant and fit the level sizes below; a counterexample is replayed on the real build.
 * -D: DMODE, KMAX, VMAX, S1MAX, S2MAX, S3MAX (largest sizes of buffer, level min+1, level min+2), LCAP, NLEV=3. */
#include "harness.h"
unsigned int UNIT(u_dyn_step)(unsigned char *st, unsigned char *op, unsigned char *q, unsigned long *out);
#ifndef MAXOUT
#define MAXOUT 8
#endif
#define OUTLEN (10 + 2 * MAXOUT + 1 + 2 * MAXOUT + 1)
#define STLEN (1 + 3 * (1 + 3 * LCAP))
VERIF_MAIN {
  unsigned char st[STLEN], op[3], q[4];
  unsigned long out[OUTLEN];
  int present[KMAX + 1], decided[KMAX + 1]; unsigned val[KMAX + 1];
  for (int k = 0; k <= KMAX; k++) { present[k] = 0; decided[k] = 0; val[k] = 0; }
  for (int i = 0; i < STLEN; i++) st[i] = 0;
  const unsigned smax[3] = {S1MAX, S2MAX, S3MAX};
  const unsigned cap[3] = {3, 4, 8};              /* base 2, buffer_level 1: buffer 1+2, then 2^2, 2^3 */
  unsigned used = (unsigned) IN(1, 4);            /* min_level = 1: used_levels in 1..4 */
  st[0] = (unsigned char) used;
  for (int j = 0; j < 3; j++) {
    unsigned char *p = st + 1 + j * (1 + 3 * LCAP);
    unsigned lim = (unsigned) (1 + j) < used ? (smax[j] < cap[j] ? smax[j] : cap[j]) : 0;    /* levels >= used_levels are empty */
    unsigned sz = (unsigned) IN(0, lim);
    p[0] = (unsigned char) sz;
    for (unsigned t = 0; t < LCAP; t++) if (t < smax[j]) {
      unsigned char key = (unsigned char) IN(0, KMAX), v = (unsigned char) IN(0, VMAX), tomb = (unsigned char) IN(0, 1);
      if (t < sz) {
        if (t > 0) ASSUME(key > p[1 + 3 * (t - 1)]);        /* strictly sorted level */
        p[1 + 3 * t] = key; p[1 + 3 * t + 1] = v; p[1 + 3 * t + 2] = tomb;
        if (!decided[key]) { decided[key] = 1; present[key] = !tomb; val[key] = v; }   /* newest level decides */
      }
    }
  }
  op[0] = (unsigned char) IN(0, 1); op[1] = (unsigned char) IN(0, KMAX); op[2] = (unsigned char) IN(0, VMAX);
  if (op[0] == 0) { present[op[1]] = 1; val[op[1]] = op[2]; } else present[op[1]] = 0;
  q[0] = (unsigned char) IN(0, KMAX); q[1] = (unsigned char) IN(0, KMAX + 1);
  q[2] = (unsigned char) IN(0, KMAX + 1); q[3] = (unsigned char) IN(q[2], KMAX + 1);
  for (int i = 0; i < OUTLEN; i++) out[i] = 0;
  unsigned int rc = UNIT(u_dyn_step)(st, op, q, out);
  OUT(rc); for (int i = 0; i < OUTLEN; i++) OUT(out[i]);
  ASSERT(rc == 0, "a valid update and the queries do not throw and iteration terminates");
#if DMODE == 2
  ASSERT((out[8] & 1) == 0, "C15 every level strictly sorted by key");
  ASSERT((out[8] & 2) == 0, "C15 level sizes within capacity (buffer and base^i)");
  ASSERT((out[8] & (4 | 64)) == 0, "C15 no data beyond the used levels");
  ASSERT((out[8] & (8 | 16)) == 0, "C15 every non-empty indexed level owns a PGM-index built over exactly its keys");
  ASSERT((out[8] & 32) == 0, "C15 the index of an emptied level is reset");
#endif
#if DMODE == 5
  ASSERT(out[0] == (unsigned long) present[q[0]], "C05 find(k) hits iff k is live");
  if (present[q[0]]) ASSERT(out[1] == val[q[0]], "C05 find(k) yields the most recently assigned value");
#endif
#if DMODE == 0
  ASSERT(out[0] == (unsigned long) present[q[0]], "C05 find(k) hits iff k is live");
  if (present[q[0]]) ASSERT(out[1] == val[q[0]], "C05 find(k) yields the most recently assigned value");
  ASSERT(out[2] == (unsigned long) present[q[0]], "C05 count(k) is 1 iff k is live");
  int lbk = -1;
  for (int k = KMAX; k >= 0; k--) if (k >= q[1] && present[k]) lbk = k;
  ASSERT((out[3] != 0) == (lbk >= 0), "C05 lower_bound(k) is end() iff no live key >= k");
  if (lbk >= 0) ASSERT(out[4] == (unsigned long) lbk && out[5] == val[lbk], "C05 lower_bound(k) designates the smallest live key >= k with its current value");
#endif
  unsigned long live = 0;
  for (int k = 0; k <= KMAX; k++) live += present[k];
#if DMODE == 3
  ASSERT(out[6] == live, "C06 size() equals the number of live keys");
  ASSERT((out[7] != 0) == (live == 0), "C06 empty() iff no live key");
#endif
#if DMODE == 3 || DMODE == 6
  { unsigned long base = 10 + 2 * MAXOUT; int idx = 0; unsigned long cnt = 0;
    for (int k = 0; k <= KMAX; k++) if (present[k] && k >= q[2] && k <= q[3]) cnt++;
    ASSERT(out[base] == cnt, "C06 range(lo,hi) returns exactly the live pairs with lo <= key <= hi");
    for (int k = 0; k <= KMAX; k++) if (present[k] && k >= q[2] && k <= q[3]) {
      if (idx < MAXOUT) ASSERT(out[base + 1 + 2 * idx] == (unsigned long) k && out[base + 2 + 2 * idx] == val[k], "C06 range(lo,hi) is in key order with current values");
      idx++; } }
#endif
#if DMODE == 1
  ASSERT(out[9] == live, "C06 begin()..end() visits exactly as many elements as there are live keys");
  { int idx = 0;
    for (int k = 0; k <= KMAX; k++) if (present[k]) {
      if (idx < MAXOUT) ASSERT(out[10 + 2 * idx] == (unsigned long) k && out[11 + 2 * idx] == val[k], "C06 iteration visits the live keys in increasing order with their current values");
      idx++; } }
#endif
  VERIF_END;
}
