/* C18 (static part): pgm_index_<type>_{create,search,destroy} with a RUN-TIME epsilon.  Keys are a symbolic base value plus
 * small sorted offsets (so that the wide-key arithmetic can be narrowed under checked assertions).
 * -D: N, KEY_U, KEY_BITS, KEY_SIGNED, EPSLO, EPSHI, SPREAD. */
#include "harness.h"
typedef KEY_U ukey_t;
unsigned int UNIT(u_cpgm)(ukey_t *d, unsigned long n, unsigned long epsilon, ukey_t *q, unsigned long *out);
#define ORD_MAX ((KEY_BITS) == 64 ? ~0ULL : ((1ULL << (KEY_BITS)) - 1))
#if KEY_SIGNED
#define FROM_ORD(o) ((ukey_t)((o) ^ (1ULL << ((KEY_BITS) - 1))))
#else
#define FROM_ORD(o) ((ukey_t)(o))
#endif
#ifndef SPREAD
#define SPREAD 200
#endif
VERIF_MAIN {
  const unsigned long n = N;
#if EPSLO == EPSHI
  unsigned long eps = EPSLO;                    /* a literal, so that a fixed-data construction constant-propagates */
#else
  unsigned long eps = IN(EPSLO, EPSHI);
#endif
  /* base anywhere in the key space (incl. right below the reserved maximum and around the sign change), offsets small */
  unsigned long long ord[N]; ukey_t d[N];
#ifdef FIXED_DATA
  /* one concrete data set (stated in the job), run-time epsilon and EVERY query key symbolic */
  static const unsigned long long fixed_ord[N] = { FIXED_DATA };
  for (int i = 0; i < N; i++) { ord[i] = fixed_ord[i]; d[i] = FROM_ORD(ord[i]); }
#else
  unsigned long long base = IN(0, ORD_MAX - SPREAD);
  for (int i = 0; i < N; i++) { ord[i] = base + IN(i ? ord[i - 1] - base : 0, SPREAD); d[i] = FROM_ORD(ord[i]); }
#endif
#ifdef ALLOW_SENTINEL
  int reserved = ord[N - 1] == ORD_MAX;
#else
  ASSUME(ord[N - 1] != ORD_MAX);
  int reserved = 0;
#endif
#ifdef FIXED_DATA
  unsigned long long qo = IN(0, ORD_MAX - 1);
#else
  unsigned long long qo = base + IN(0, SPREAD); ASSUME(qo != ORD_MAX);
#endif
  ukey_t q = FROM_ORD(qo);
  unsigned long out[3] = {0, 0, 0};
  unsigned int rc = UNIT(u_cpgm)(d, n, eps, &q, out);
  OUT(rc); OUT(out[0]); OUT(out[1]); OUT(out[2]);
  ASSERT((rc == 1) == (reserved != 0), "C18/C20 create returns NULL iff the data contains the reserved value");
  if (reserved) { VERIF_END; }
  unsigned long pos = out[0], lo = out[1], hi = out[2], lb = 0;
  for (int i = 0; i < N; i++) if (ord[i] < qo) lb = i + 1;
  ASSERT(lo <= hi && hi <= n, "C18 lo <= hi <= n");
  ASSERT(hi - lo <= 2 * eps + 2, "C18 hi - lo <= 2*epsilon+2 for the run-time epsilon");
  ASSERT(lo <= pos, "C18 lo <= pos");
  ASSERT(lo <= lb && lb <= hi, "C18 the range brackets the global lower bound");
  if (lb < n && ord[lb] == qo) ASSERT(lb < hi, "C18 first occurrence of a present key lies in [lo,hi)");
  VERIF_END;
}
