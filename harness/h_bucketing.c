/* C09: REAL BucketingPGMIndex<KEY, EPS, TOPSIZE, TOPBITS>: constructor (segmentation + build_top_level over an sdsl::int_vector)
 * and search().  -D: N, KEY_U, KEY_BITS, EPS. */
#include "harness.h"
typedef KEY_U ukey_t;
#ifndef UFUNC
#define UFUNC u_bucketing
#endif
unsigned int UNIT(UFUNC)(ukey_t *d, unsigned long n, ukey_t *q, unsigned long *out);
#define ORD_MAX ((KEY_BITS) == 64 ? ~0ULL : ((1ULL << (KEY_BITS)) - 1))
VERIF_MAIN {
  const unsigned long n = N;
  unsigned long long ord[N]; ukey_t d[N];
#ifdef FIXED_DATA
  /* one concrete data set (stated in the job), every query key symbolic: the construction (incl. the cell width of a dynamic-width
     sdsl::int_vector<0>) is constant-propagated, the query runs symbolically over the whole key domain */
  static const unsigned long long fixed_ord[N] = { FIXED_DATA };
  for (int i = 0; i < N; i++) { ord[i] = fixed_ord[i]; d[i] = (ukey_t) ord[i]; }
#else
  for (int i = 0; i < N; i++) { ord[i] = IN(i ? ord[i - 1] : 0, ORD_MAX - 1); d[i] = (ukey_t) ord[i]; }
#endif
  unsigned long long qo = IN(0, ORD_MAX - 1); ukey_t q = (ukey_t) qo;
  unsigned long out[5] = {0, 0, 0, 0, 0};
  unsigned int rc = UNIT(UFUNC)(d, n, &q, out);
  unsigned long pos = out[0], lo = out[1], hi = out[2];
  OUT(rc); OUT(pos); OUT(lo); OUT(hi); OUT(out[3]); OUT(out[4]);
  ASSERT(rc == 0, "construction and search on valid input do not throw");
  unsigned long lb = 0;
  for (int i = 0; i < N; i++) if (ord[i] < qo) lb = i + 1;
  ASSERT(lo <= hi && hi <= n, "C09 lo <= hi <= n");
  ASSERT(hi - lo <= 2 * (EPS) + 2, "C09 hi - lo <= 2*Epsilon+2");
  ASSERT(lo <= lb && lb <= hi, "C09 lower_bound over [lo,hi) equals the global lower_bound");
  if (lb < n && ord[lb] == qo) ASSERT(lb < hi, "C09 first occurrence of a present key lies in [lo,hi)");
#ifndef NO_EMPTY_RANGES
  if (qo < ord[0]) ASSERT(lo == 0 && hi == 0, "C09 keys below the first key yield the empty range at 0");
  if (qo > ord[N - 1]) ASSERT(lo == n && hi == n, "C09 keys above the last key yield the empty range at n");
#endif
  VERIF_END;
}
