/* C19: copies and moves of the REAL index classes are independent values.  The source is built over N symbolic keys, copied / moved by
 * a symbolic mode, then destroyed and its storage reused for an index over N2 other symbolic keys; the copy must still answer every
 * query exactly as the source did (and touch no freed storage: the memory-safety assertions).  -D: CKIND, N, N2, KMAXV, MODES (bit mask). */
#include "harness.h"
unsigned int UNIT(u_copy)(unsigned char *d, unsigned long n, unsigned char *d2, unsigned long n2, unsigned int mode, unsigned char *op, unsigned char *q, unsigned long *out);
#define NOUT 6
#if CKIND == 2 || CKIND == 3
#define W 2
#else
#define W 1
#endif
VERIF_MAIN {
  unsigned char d[W * N + 2], d2[W * N2 + 2], op[3], q[4];
  unsigned long out[2 * NOUT];
#ifdef MODE1
  unsigned mode = MODE1;                       /* one mode per job: keeps the other constructions out of the formula */
#else
  unsigned mode = (unsigned) IN(0, 7);
  ASSUME((MODES >> mode) & 1);
#endif
  for (int i = 0; i < N; i++) {
#if CKIND == 2
    d[2 * i] = (unsigned char) IN(0, KMAXV); d[2 * i + 1] = (unsigned char) IN(0, KMAXV);          /* points, any order */
#elif CKIND == 3
    d[2 * i] = (unsigned char) IN(i ? d[2 * (i - 1)] : 0, KMAXV); d[2 * i + 1] = (unsigned char) IN(0, 3);   /* sorted keys, values */
#else
    d[i] = (unsigned char) IN(i ? d[i - 1] : 0, KMAXV);
#endif
  }
  for (int i = 0; i < N2; i++) {
#if CKIND == 2
    d2[2 * i] = (unsigned char) IN(0, KMAXV); d2[2 * i + 1] = (unsigned char) IN(0, KMAXV);
#elif CKIND == 3
    d2[2 * i] = (unsigned char) IN(i ? d2[2 * (i - 1)] : 0, KMAXV); d2[2 * i + 1] = (unsigned char) IN(0, 3);
#else
    d2[i] = (unsigned char) IN(i ? d2[i - 1] : 0, KMAXV);
#endif
  }
  op[0] = (unsigned char) IN(0, 1); op[1] = (unsigned char) IN(0, KMAXV); op[2] = (unsigned char) IN(0, 3);
  for (int i = 0; i < 4; i++) q[i] = (unsigned char) IN(0, KMAXV + 1);
  for (int i = 0; i < 2 * NOUT; i++) out[i] = 0;
  unsigned int rc = UNIT(u_copy)(d, N, d2, N2, mode, op, q, out);
  OUT(rc); for (int i = 0; i < 2 * NOUT; i++) OUT(out[i]);
  ASSERT(rc == 0, "C19 copying / moving a valid index does not throw");
  for (int i = 0; i < NOUT; i++)
    ASSERT(out[NOUT + i] == out[i], "C19 the copy / moved-to object answers exactly as the source did, after the source was destroyed, reused or updated");
  VERIF_END;
}
